"""C09 on the UNCHANGED library, plain mode, workbook WITH stored results.

  A1:A3 = 1, 2, 3          C1 = 1, C3 = 3
  C2 = NOSUCHFUNC(A1)      no stored result (e.g. a UDF the writing tool could
                           not calculate; a stored empty text reads the same)
  Y1 = COUNTA(C1:C3)       stored 3
  X1 = SUM(A1:A3) + Y1     stored 9     depends on the failing C2
  Z1 = SUM(A1:A3) * 2      stored 12    does NOT depend on C2

evaluate(X1) builds the graph; ranges are evaluated when they are built, C1:C3
first: C2 raises UnknownFunction.  _process_gen_graph() drops the rest of
range_todos in its finally: the range A1:A3 stays in the cell map with value
None, for ever (nothing evaluates it, its dependants hold stored results).
  1. the retry of X1 returns the stored 9 - no error, a stale value
  2. set_value(A1, 100): _reset() does not walk through A1:A3 (no value), so the
     bystander Z1 keeps its stored 12 instead of 210
"""
import logging
import os
import re
import shutil
import sys
import tempfile
import zipfile

from openpyxl import Workbook

from pycel import ExcelCompiler
from pycel.excelutil import PyCelException

logging.disable(logging.CRITICAL)


def make_workbook(path, stored):
    wb = Workbook()
    ws = wb.active
    ws['A1'], ws['A2'], ws['A3'] = 1, 2, 3
    ws['C1'], ws['C3'] = 1, 3
    ws['C2'] = '=NOSUCHFUNC(A1)'
    ws['Y1'] = '=COUNTA(C1:C3)'
    ws['X1'] = '=SUM(A1:A3)+Y1'
    ws['Z1'] = '=SUM(A1:A3)*2'
    wb.save(path)
    # openpyxl writes no results; add them as excel would store them
    tmp = path + '.tmp'
    with zipfile.ZipFile(path) as zin, \
            zipfile.ZipFile(tmp, 'w', zipfile.ZIP_DEFLATED) as zout:
        for item in zin.infolist():
            data = zin.read(item.filename)
            if item.filename == 'xl/worksheets/sheet1.xml':
                text = data.decode()
                for ref, value in stored.items():
                    text, n = re.subn(
                        r'(<c r="%s"[^>]*>)(<f>.*?</f>)<v ?/>' % ref,
                        r'\1\2<v>%s</v>' % value, text)
                    assert n == 1, ref
                data = text.encode()
            zout.writestr(item, data)
    shutil.move(tmp, path)


path = os.path.join(tempfile.mkdtemp(), 'stored.xlsx')
make_workbook(path, {'Y1': 3, 'X1': 9, 'Z1': 12})
compiler = ExcelCompiler(filename=path)
problems = []

try:
    compiler.evaluate('Sheet!X1')
    sys.exit('premise: the first evaluation of X1 is expected to raise')
except PyCelException:
    pass

try:
    value = compiler.evaluate('Sheet!X1')
    problems.append(f'retry of X1 (depends on the failing C2) returned '
                    f'{value!r}, expected a pycel error again')
except PyCelException:
    pass

if compiler.evaluate('Sheet!Z1') != 12:
    problems.append('Z1 is not 12')
compiler.set_value('Sheet!A1', 100)
value = compiler.evaluate('Sheet!Z1')
if value != 210:
    problems.append(f'bystander Z1 = SUM(A1:A3)*2 is {value!r} after '
                    f'set_value(A1, 100), expected 210')

if problems:
    print('C09 violated on the unchanged library:')
    for p in problems:
        print('  ', p)
    sys.exit(1)
print('ok')
