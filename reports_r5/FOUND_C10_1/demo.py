"""C10 on the UNCHANGED library: arithmetic takes the text "TRUE"/"FALSE"
(any case) for the numbers 1/0 instead of answering #VALUE!."""
import logging
import os
import sys
import tempfile

from openpyxl import Workbook

from pycel import ExcelCompiler

logging.disable(logging.CRITICAL)


def main():
    wb = Workbook()
    ws = wb.active
    ws['A1'] = 'TRUE'
    ws['A1'].data_type = 's'        # a text cell, not a logical
    ws['A2'] = 'false'
    ws['A3'] = 'abc'                # control
    formulas = ['="TRUE"+1', '=1+"TRUE"', '="FALSE"*5', '="true"-1',
                '=2^"TRUE"', '=5/"FALSE"', '=-"TRUE"', '="TRUE"%',
                '=A1+1', '=A2*5', '=-A1', '=A1%', '="TRUE"+"TRUE"',
                '=A3+1', '=-A3']
    for row, formula in enumerate(formulas, 1):
        ws[f'C{row}'] = formula
    ws['D1'] = '=A1=TRUE'           # the cell really holds text: FALSE
    ws['D2'] = '=A1&""'
    path = os.path.join(tempfile.mkdtemp(), 'found_c10_1.xlsx')
    wb.save(path)

    compiler = ExcelCompiler(filename=path)
    assert compiler.evaluate('Sheet!D1') is False
    assert compiler.evaluate('Sheet!D2') == 'TRUE'

    failures = 0
    for row, formula in enumerate(formulas, 1):
        got = compiler.evaluate(f'Sheet!C{row}')
        if got != '#VALUE!':
            failures += 1
            print(f'C10 violated: {formula} gave {got!r}; the operand is '
                  f'text which is not numeric, arithmetic has to give '
                  f"'#VALUE!'")
    if failures:
        print(f'{failures} of {len(formulas)} evaluations wrong')
        return 1
    print('ok')
    return 0


if __name__ == '__main__':
    sys.exit(main())
