"""C10 on the UNCHANGED library: numeric-looking text beyond the float range
("1e400") makes the arithmetic operators return inf / nan, which are neither
an Excel number nor an error value; nan also breaks the comparison laws for
the value that was returned."""
import logging
import math
import os
import sys
import tempfile

from openpyxl import Workbook

from pycel import ExcelCompiler

logging.disable(logging.CRITICAL)


def main():
    wb = Workbook()
    ws = wb.active
    ws['A1'] = '1e400'
    ws['A2'] = 0
    formulas = ['="1e400"+0', '=1-"1e400"', '="1e400"*0', '="1e400"/"1e400"',
                '=2^"1e400"', '=-"1e400"', '="1e400"%', '=A1*A2', '=A1+1',
                '="-1E+999"*2']
    for row, formula in enumerate(formulas, 1):
        ws[f'C{row}'] = formula
    # the comparison laws for the value an operator returned
    ws['D1'] = '=C3=C3'
    ws['D2'] = '=C3<>C3'
    ws['D3'] = '=(C3<0)+(C3=0)+(C3>0)'
    ws['D4'] = '=C3&""'
    path = os.path.join(tempfile.mkdtemp(), 'found_c10_2.xlsx')
    wb.save(path)

    compiler = ExcelCompiler(filename=path)
    failures = 0
    for row, formula in enumerate(formulas, 1):
        got = compiler.evaluate(f'Sheet!C{row}')
        finite = isinstance(got, (int, float)) and math.isfinite(got)
        error = isinstance(got, str) and got.startswith('#')
        if not (finite or error):
            failures += 1
            print(f'C10 violated: {formula} gave {got!r}, which is neither a '
                  f'number Excel can hold nor an error value (expected '
                  f"'#VALUE!': the text is not a number Excel can read)")
    def safe(addr):
        try:
            return compiler.evaluate(addr)
        except Exception as exc:    # noqa
            return f'RAISED {type(exc).__name__}'

    eq, ne, tri, txt = (safe(f'Sheet!D{i}') for i in (1, 2, 3, 4))
    if eq is not True or ne is not False or tri != 1 or 'RAISED' in str(txt):
        failures += 1
        print(f'C10 violated: for x = the result of ="1e400"*0: x=x is {eq!r}, '
              f'x<>x is {ne!r}, and {tri!r} of x<0, x=0, x>0 hold (exactly '
              f'one has to); x&"" is {txt!r}')
    if failures:
        print(f'{failures} checks failed')
        return 1
    print('ok')
    return 0


if __name__ == '__main__':
    sys.exit(main())
