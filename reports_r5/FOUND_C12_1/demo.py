"""C12, unchanged library: a stored result altered from a number to the logical
value (1 -> TRUE, 0 -> FALSE) or from a logical value to the number is not reported.

    A1 = 1
    B1 = A1+0                      stored 1     -> altered to TRUE
    C1 = IF(B1=1,"one","other")    stored "one"
    D1 = A1>0                      stored TRUE  -> altered to 1
    E1 = IF(D1,"yes","no")         stored "yes"

In Excel TRUE and 1 are different values: =TRUE=1 is FALSE, and C1 calculated
from a B1 which holds TRUE is "other".
"""
import contextlib
import io
import os
import sys
import tempfile
import xml.etree.ElementTree as ET
import zipfile

from openpyxl import Workbook

from pycel import ExcelCompiler

NS = 'http://schemas.openxmlformats.org/spreadsheetml/2006/main'


def write_workbook(path, cells, stored):
    """Write sheet 'Sheet1' with `cells` and give the formula cells the stored
    results `stored` (openpyxl alone does not write results of formulas)"""
    wb = Workbook()
    ws = wb.active
    ws.title = 'Sheet1'
    for addr, value in cells.items():
        ws[addr] = value
    tmp = path + '.tmp'
    wb.save(tmp)
    ET.register_namespace('', NS)
    with zipfile.ZipFile(tmp) as zin, \
            zipfile.ZipFile(path, 'w', zipfile.ZIP_DEFLATED) as zout:
        for item in zin.infolist():
            data = zin.read(item.filename)
            if item.filename == 'xl/worksheets/sheet1.xml':
                root = ET.fromstring(data)
                for c in root.iter('{%s}c' % NS):
                    if c.find('{%s}f' % NS) is None or c.get('r') not in stored:
                        continue
                    val = stored[c.get('r')]
                    v = c.find('{%s}v' % NS)
                    if v is None:
                        v = ET.SubElement(c, '{%s}v' % NS)
                    if isinstance(val, bool):
                        c.set('t', 'b')
                        v.text = '1' if val else '0'
                    elif isinstance(val, (int, float)):
                        c.attrib.pop('t', None)
                        v.text = repr(val)
                    elif val.startswith('#'):
                        c.set('t', 'e')
                        v.text = val
                    else:
                        c.set('t', 'str')
                        v.text = val
                data = ET.tostring(root, xml_declaration=True, encoding='UTF-8')
            zout.writestr(item, data)
    os.unlink(tmp)


def validate(path, **kwargs):
    with contextlib.redirect_stdout(io.StringIO()):
        return ExcelCompiler(path).validate_calcs(**kwargs)


CELLS = {'A1': 1, 'B1': '=A1+0', 'C1': '=IF(B1=1,"one","other")',
         'D1': '=A1>0', 'E1': '=IF(D1,"yes","no")'}
STORED = {'B1': 1, 'C1': 'one', 'D1': True, 'E1': 'yes'}


def main():
    problems = []
    path = os.path.join(tempfile.mkdtemp(), 'logical.xlsx')
    write_workbook(path, CELLS, STORED)
    if validate(path) != {}:
        problems.append(f'consistent workbook: {validate(path)}')

    for altered, value, was in (('B1', True, 1), ('D1', 1, True)):
        write_workbook(path, CELLS, dict(STORED, **{altered: value}))
        for kwargs in ({}, {'tolerance': 0}, {'tolerance': 0.001},
                       {'output_addrs': [f'Sheet1!{altered}']}):
            report = validate(path, **kwargs)
            if f'Sheet1!{altered}' not in report.get('mismatch', {}):
                problems.append(
                    f'stored result of {altered} altered {was!r} -> {value!r}: '
                    f'validate_calcs({kwargs}) does not name it, report {report}')

    for p in problems:
        print('VIOLATION:', p)
    return 1 if problems else 0


if __name__ == '__main__':
    sys.exit(main())
