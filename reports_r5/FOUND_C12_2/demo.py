"""C12, unchanged library: a stored text result altered to the empty text is not
reported, and neither is any stored result altered to "".

    A1 = 1
    B1 = "ab"&A1        stored "ab1"   -> altered to ""
    C1 = B1&"!"         stored "ab1!"
    D1 = A1+1           stored 2       -> altered to ""
"""
import contextlib
import io
import os
import sys
import tempfile
import xml.etree.ElementTree as ET
import zipfile

from openpyxl import Workbook

from pycel import ExcelCompiler

NS = 'http://schemas.openxmlformats.org/spreadsheetml/2006/main'


def write_workbook(path, cells, stored):
    """Write sheet 'Sheet1' with `cells` and give the formula cells the stored
    results `stored` (openpyxl alone does not write results of formulas)"""
    wb = Workbook()
    ws = wb.active
    ws.title = 'Sheet1'
    for addr, value in cells.items():
        ws[addr] = value
    tmp = path + '.tmp'
    wb.save(tmp)
    ET.register_namespace('', NS)
    with zipfile.ZipFile(tmp) as zin, \
            zipfile.ZipFile(path, 'w', zipfile.ZIP_DEFLATED) as zout:
        for item in zin.infolist():
            data = zin.read(item.filename)
            if item.filename == 'xl/worksheets/sheet1.xml':
                root = ET.fromstring(data)
                for c in root.iter('{%s}c' % NS):
                    if c.find('{%s}f' % NS) is None or c.get('r') not in stored:
                        continue
                    val = stored[c.get('r')]
                    v = c.find('{%s}v' % NS)
                    if v is None:
                        v = ET.SubElement(c, '{%s}v' % NS)
                    if isinstance(val, bool):
                        c.set('t', 'b')
                        v.text = '1' if val else '0'
                    elif isinstance(val, (int, float)):
                        c.attrib.pop('t', None)
                        v.text = repr(val)
                    elif val.startswith('#'):
                        c.set('t', 'e')
                        v.text = val
                    else:
                        c.set('t', 'str')
                        v.text = val
                data = ET.tostring(root, xml_declaration=True, encoding='UTF-8')
            zout.writestr(item, data)
    os.unlink(tmp)


def validate(path, **kwargs):
    with contextlib.redirect_stdout(io.StringIO()):
        return ExcelCompiler(path).validate_calcs(**kwargs)


CELLS = {'A1': 1, 'B1': '="ab"&A1', 'C1': '=B1&"!"', 'D1': '=A1+1'}
STORED = {'B1': 'ab1', 'C1': 'ab1!', 'D1': 2}


def main():
    problems = []
    path = os.path.join(tempfile.mkdtemp(), 'emptytext.xlsx')
    write_workbook(path, CELLS, STORED)
    if validate(path) != {}:
        problems.append(f'consistent workbook: {validate(path)}')

    # control: another text is found
    write_workbook(path, CELLS, dict(STORED, B1='x'))
    if 'Sheet1!B1' not in validate(path).get('mismatch', {}):
        problems.append('B1 altered to "x" is not named')

    for altered in ('B1', 'D1'):
        write_workbook(path, CELLS, dict(STORED, **{altered: ''}))
        for kwargs in ({}, {'output_addrs': [f'Sheet1!{altered}']},
                       {'output_addrs': ['Sheet1!C1', 'Sheet1!D1']}):
            report = validate(path, **kwargs)
            if f'Sheet1!{altered}' not in report.get('mismatch', {}):
                problems.append(
                    f'stored result of {altered} altered {STORED[altered]!r} -> "": '
                    f'validate_calcs({kwargs}) does not name it, report {report}')

    for p in problems:
        print('VIOLATION:', p)
    return 1 if problems else 0


if __name__ == '__main__':
    sys.exit(main())
