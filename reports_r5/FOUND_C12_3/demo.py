"""C12, unchanged library: a formula cell which the checked output reaches through
INDIRECT() / OFFSET() only is never verified.

    A1 = 1
    B1 = A1+1              stored 2   -> altered to 7
    C1 = INDIRECT("B1")    stored 2
    D1 = OFFSET(A1,0,1)    stored 2

C1 and D1 are calculated from B1 (the report shows it: they are calculated as 7),
B1 is reachable from them, yet B1 itself is not named.
"""
import contextlib
import io
import os
import sys
import tempfile
import xml.etree.ElementTree as ET
import zipfile

from openpyxl import Workbook

from pycel import ExcelCompiler

NS = 'http://schemas.openxmlformats.org/spreadsheetml/2006/main'


def write_workbook(path, cells, stored):
    """Write sheet 'Sheet1' with `cells` and give the formula cells the stored
    results `stored` (openpyxl alone does not write results of formulas)"""
    wb = Workbook()
    ws = wb.active
    ws.title = 'Sheet1'
    for addr, value in cells.items():
        ws[addr] = value
    tmp = path + '.tmp'
    wb.save(tmp)
    ET.register_namespace('', NS)
    with zipfile.ZipFile(tmp) as zin, \
            zipfile.ZipFile(path, 'w', zipfile.ZIP_DEFLATED) as zout:
        for item in zin.infolist():
            data = zin.read(item.filename)
            if item.filename == 'xl/worksheets/sheet1.xml':
                root = ET.fromstring(data)
                for c in root.iter('{%s}c' % NS):
                    if c.find('{%s}f' % NS) is None or c.get('r') not in stored:
                        continue
                    val = stored[c.get('r')]
                    v = c.find('{%s}v' % NS)
                    if v is None:
                        v = ET.SubElement(c, '{%s}v' % NS)
                    if isinstance(val, bool):
                        c.set('t', 'b')
                        v.text = '1' if val else '0'
                    elif isinstance(val, (int, float)):
                        c.attrib.pop('t', None)
                        v.text = repr(val)
                    elif val.startswith('#'):
                        c.set('t', 'e')
                        v.text = val
                    else:
                        c.set('t', 'str')
                        v.text = val
                data = ET.tostring(root, xml_declaration=True, encoding='UTF-8')
            zout.writestr(item, data)
    os.unlink(tmp)


def validate(path, **kwargs):
    with contextlib.redirect_stdout(io.StringIO()):
        return ExcelCompiler(path).validate_calcs(**kwargs)


CELLS = {'A1': 1, 'B1': '=A1+1', 'C1': '=INDIRECT("B1")', 'D1': '=OFFSET(A1,0,1)'}
STORED = {'B1': 2, 'C1': 2, 'D1': 2}


def main():
    problems = []
    path = os.path.join(tempfile.mkdtemp(), 'dynamic.xlsx')
    write_workbook(path, CELLS, STORED)
    for kwargs in ({}, {'output_addrs': ['Sheet1!C1']}, {'output_addrs': ['Sheet1!D1']}):
        if validate(path, **kwargs) != {}:
            problems.append(f'consistent workbook: {validate(path, **kwargs)}')

    write_workbook(path, CELLS, dict(STORED, B1=7))
    for kwargs in ({}, {'output_addrs': ['Sheet1!C1']},
                   {'output_addrs': ['Sheet1!D1']},
                   {'output_addrs': ['Sheet1!C1', 'Sheet1!D1']}):
        report = validate(path, **kwargs)
        if 'Sheet1!B1' not in report.get('mismatch', {}):
            problems.append(
                f'stored result of B1 altered 2 -> 7: validate_calcs({kwargs}) '
                f'does not name it, report {report}')

    for p in problems:
        print('VIOLATION:', p)
    return 1 if problems else 0


if __name__ == '__main__':
    sys.exit(main())
