"""INDIRECT() and OFFSET() are lifted over arrays (cse_params), but the array
formula then holds address objects and its member cells fail (unchanged library)."""
import os
import sys
import tempfile

import openpyxl
from openpyxl.worksheet.formula import ArrayFormula

from pycel import ExcelCompiler

wb = openpyxl.Workbook()
ws = wb.active
ws.title = 'Sheet1'
for row, (a, b) in enumerate(((1, 10), (2, 20), (3, 30)), start=1):
    ws.cell(row=row, column=1, value=a)
    ws.cell(row=row, column=2, value=b)
ws['K1'], ws['K2'], ws['K3'] = 'A1', 'B2', 'A3'
ws['L1'], ws['L2'], ws['L3'] = 0, 1, 2
ws['D1'] = ArrayFormula('D1:D3', '=INDIRECT(K1:K3)')
ws['E1'] = ArrayFormula('E1:E3', '=OFFSET(B1,L1:L3,0)')
for row in (1, 2, 3):      # the scalar applications
    ws[f'M{row}'] = f'=INDIRECT(K{row})'
    ws[f'N{row}'] = f'=OFFSET(B1,L{row},0)'
path = os.path.join(tempfile.mkdtemp(), 'm.xlsx')
wb.save(path)

failures = []
for target, scalars in (('D', 'M'), ('E', 'N')):
    model = ExcelCompiler(path)
    expected = tuple(model.evaluate(f'Sheet1!{scalars}{r}') for r in (1, 2, 3))
    as_range = model.evaluate(f'Sheet1!{target}1:{target}3')
    if as_range != expected:
        failures.append(f'{target}1:{target}3 is {tuple(map(str, as_range))} '
                        f'({type(as_range[0]).__name__} objects), the scalar '
                        f'applications give {expected}')
    model = ExcelCompiler(path)
    for r in (1, 2, 3):
        try:
            member = model.evaluate(f'Sheet1!{target}{r}')
        except Exception as exc:
            member = f'raises {type(exc).__name__}'
        if member != expected[r - 1]:
            failures.append(f'member cell {target}{r}: {member}, '
                            f'expected {expected[r - 1]}')
if failures:
    print('C13 VIOLATED (unchanged library):')
    for failure in failures:
        print('  ' + failure)
    sys.exit(1)
print('ok')
