"""An array formula entered into a single cell is not evaluated as an array
formula: array-aware IFERROR/IFNA/IFS are not lifted (unchanged library)."""
import os
import sys
import tempfile

import openpyxl
from openpyxl.worksheet.formula import ArrayFormula

from pycel import ExcelCompiler

wb = openpyxl.Workbook()
ws = wb.active
ws.title = 'Sheet1'
for row, (a, b) in enumerate(((1, 1), (2, 0), (3, 3)), start=1):
    ws.cell(row=row, column=1, value=a)
    ws.cell(row=row, column=2, value=b)
# 1x1 target, and the same formula over a 1x2 target
ws['D1'] = ArrayFormula('D1', '=SUM(IFERROR(A1:A3/B1:B3,0))')
ws['D2'] = ArrayFormula('D2:E2', '=SUM(IFERROR(A1:A3/B1:B3,0))')
# position by position: the scalar applications
for row in (1, 2, 3):
    ws[f'G{row}'] = f'=IFERROR(A{row}/B{row},0)'
ws['G4'] = '=SUM(G1:G3)'
path = os.path.join(tempfile.mkdtemp(), 'm.xlsx')
wb.save(path)

model = ExcelCompiler(path)
expected = model.evaluate('Sheet1!G4')
one_cell = model.evaluate('Sheet1!D1')
two_cells = model.evaluate('Sheet1!D2:E2')
print(f'scalar applications summed: {expected}; {{=SUM(IFERROR(A1:A3/B1:B3,0))}} '
      f'in D1: {one_cell}; over D2:E2: {two_cells}')
if one_cell != expected or two_cells != (expected, expected):
    print('C13 VIOLATED (unchanged library): the array formula in a single cell '
          f'gives {one_cell}, not {expected}')
    sys.exit(1)
print('ok')
