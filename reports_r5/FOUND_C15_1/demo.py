"""FOUND C15: a text criterion holding a line break"""
import logging
import sys

from openpyxl import Workbook

from pycel import ExcelCompiler

logging.disable(logging.CRITICAL)

wb = Workbook()
ws = wb.active
ws.title = 'S'
for row, (text, number) in enumerate(
        (('a\nb', 1), ('x', 10), ('A\nB', 100), (None, 1000)), start=1):
    if text is not None:
        ws.cell(row=row, column=1, value=text)
    ws.cell(row=row, column=3, value=number)
ws['B1'] = 'a\nb'

CASES = (
    ('=COUNTIF(A1:A4,B1)', 2),
    ('=COUNTIFS(A1:A4,B1)', 2),
    ('=COUNTIF(A1:A4,"="&B1)', 2),
    ('=COUNTIF(A1:A4,"<>"&B1)', 2),
    ('=SUMIF(A1:A4,B1,C1:C4)', 101),
    ('=SUMIFS(C1:C4,A1:A4,"<>"&B1)', 1010),
    ('=MAXIFS(C1:C4,A1:A4,B1)', 100),
    # for comparison: the same texts selected with a wildcard
    ('=COUNTIF(A1:A4,"a*b")', 2),
)
for row, (formula, _) in enumerate(CASES, start=1):
    ws.cell(row=row, column=5, value=formula)

compiler = ExcelCompiler(excel=wb)
problems = []
for row, (formula, expected) in enumerate(CASES, start=1):
    try:
        value = compiler.evaluate(f'S!E{row}')
    except Exception as exc:
        cause = str(exc).strip().splitlines()
        cause = next((line for line in cause if 'Error' in line), cause[-1])
        problems.append(f'{formula} raises {type(exc).__name__} ({cause.strip()})')
    else:
        if value != expected:
            problems.append(f'{formula} is {value!r}, not {expected!r}')

if problems:
    print('C15 violated by the unchanged library (B1 is "a<LF>b"):')
    for problem in problems:
        print('  ' + problem)
    sys.exit(1)
print('ok')
