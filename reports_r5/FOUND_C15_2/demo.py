"""FOUND C15: SUMIF/AVERAGEIF with a blank one cell sum range"""
import sys

from openpyxl import Workbook

from pycel import ExcelCompiler

wb = Workbook()
ws = wb.active
ws.title = 'S'
ws['E1'] = 5            # F1 stays blank
ws['E2'] = 5
ws['F2'] = 7

PAIRS = (
    ('=SUMIF(E1,">0",F1)', '=SUMIFS(F1,E1,">0")'),
    ('=AVERAGEIF(E1,">0",F1)', '=AVERAGEIFS(F1,E1,">0")'),
    ('=SUMIF(E1:E1,">0",F1:F1)', '=SUMIFS(F1:F1,E1:E1,">0")'),
    # for comparison: the sum cell holds a number
    ('=SUMIF(E2,">0",F2)', '=SUMIFS(F2,E2,">0")'),
    ('=AVERAGEIF(E2,">0",F2)', '=AVERAGEIFS(F2,E2,">0")'),
)
for row, (if_form, ifs_form) in enumerate(PAIRS, start=1):
    ws.cell(row=row, column=8, value=if_form)
    ws.cell(row=row, column=9, value=ifs_form)

compiler = ExcelCompiler(excel=wb)
problems = []
for row, (if_form, ifs_form) in enumerate(PAIRS, start=1):
    if_value = compiler.evaluate(f'S!H{row}')
    ifs_value = compiler.evaluate(f'S!I{row}')
    if if_value != ifs_value:
        problems.append(f'{if_form} is {if_value!r}, {ifs_form} is {ifs_value!r}')

if problems:
    print('C15 violated by the unchanged library (E1 is 5, F1 is blank):')
    for problem in problems:
        print('  ' + problem)
    sys.exit(1)
print('ok')
