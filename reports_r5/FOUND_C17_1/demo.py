"""DATE() with a month that carries beyond 9999 and a day < 1 that carries
back: the result is a day of the calendar, pycel returns #NUM!"""
import sys

from openpyxl import Workbook

from pycel import ExcelCompiler

cases = [
    # formula, the same day spelled without carrying
    ('=DATE(9999,13,0)', '=DATE(9999,12,31)'),
    ('=DATE(9999,13,-5)', '=DATE(9999,12,26)'),
    ('=DATE(9999,13,-30)', '=DATE(9999,12,1)'),
    ('=DATE(9999,13,-40)', '=DATE(9999,11,21)'),
    ('=DATE(9999,14,-31)', '=DATE(9999,12,31)'),
    ('=DATE(9998,25,0)', '=DATE(9999,12,31)'),
    # the same situation at the other end of the calendar, and one year earlier
    ('=DATE(1900,0,32)', '=DATE(1900,1,1)'),
    ('=DATE(9998,13,0)', '=DATE(9998,12,31)'),
]

wb = Workbook()
ws = wb.active
ws.title = 'S'
for row, (formula, same) in enumerate(cases, start=1):
    ws[f'A{row}'] = formula
    ws[f'B{row}'] = same
model = ExcelCompiler(excel=wb)

problems = []
for row, (formula, same) in enumerate(cases, start=1):
    got, expected = model.evaluate(f'S!A{row}'), model.evaluate(f'S!B{row}')
    print(f'{formula:22} -> {got!s:10} {same:20} -> {expected}')
    if got != expected:
        problems.append(f'{formula} = {got}, but {same} = {expected}')

if problems:
    print(f'\n{len(problems)} in-range results of DATE are not carried:')
    for p in problems:
        print('  ', p)
    sys.exit(1)
print('ok')
