"""DATE / EDATE / EOMONTH raise instead of returning a number or #NUM!
(large day / month arguments, outside the ranges the C17 quantifier samples)"""
import logging
import sys

from openpyxl import Workbook

from pycel import ExcelCompiler

logging.getLogger('pycel').setLevel(logging.CRITICAL)  # keep the output short

formulas = [
    '=DATE(2000,1,20000)',      # fine
    '=DATE(2000,1,31000)',
    '=DATE(2000,1,40000)',
    '=DATE(9999,12,10000000)',
    '=DATE(1900,1E+20,1)',
    '=EDATE(1,1E+20)',
    '=EOMONTH(1,-1E+20)',
]
wb = Workbook()
ws = wb.active
ws.title = 'S'
for row, formula in enumerate(formulas, start=1):
    ws[f'A{row}'] = formula
model = ExcelCompiler(excel=wb)

problems = []
for row, formula in enumerate(formulas, start=1):
    try:
        print(f'{formula:28} -> {model.evaluate(f"S!A{row}")}')
    except Exception as exc:
        msg = str(exc).strip().splitlines()[-1]
        print(f'{formula:28} -> raised {type(exc).__name__}: {msg[:90]}')
        problems.append(formula)

if problems:
    print(f'\n{len(problems)} formulas raised an exception instead of giving a value or #NUM!')
    sys.exit(1)
print('ok')
