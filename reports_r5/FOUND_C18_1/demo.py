"""FOUND (unchanged library): numeric text which overflows a float makes
DEC2BIN/DEC2OCT/DEC2HEX (number or places) and the base-to-base functions
(places) raise instead of returning #NUM!/#VALUE!."""
import logging
import sys

from openpyxl import Workbook

from pycel import ExcelCompiler

FORMULAS = (
    '=DEC2BIN("1e999")',
    '=DEC2OCT(A1)',
    '=DEC2HEX(5,"1e999")',
    '=HEX2BIN("F",A1)',
    '=BIN2OCT("101",A1)',
)


def main():
    logging.disable(logging.CRITICAL)
    wb = Workbook()
    ws = wb.active
    ws.title = 'S'
    ws['A1'] = '1e999'      # text
    for row, formula in enumerate(FORMULAS, 1):
        ws.cell(row=row, column=2).value = formula
    model = ExcelCompiler(excel=wb)
    problems = []
    for row, formula in enumerate(FORMULAS, 1):
        try:
            result = model.evaluate(f'S!B{row}')
            if result not in ('#NUM!', '#VALUE!'):
                problems.append(f'{formula} = {result!r}')
        except Exception as exc:
            reason = [line for line in str(exc).splitlines() if 'Error' in line]
            problems.append(f'{formula} raises {type(exc).__name__} '
                            f'({reason[-1] if reason else exc})')
    if problems:
        print('C18 VIOLATED on the unchanged library (A1 is the text "1e999"):')
        for problem in problems:
            print('  ' + problem)
        return 1
    print('ok')
    return 0


if __name__ == '__main__':
    sys.exit(main())
