"""C19 on the UNCHANGED library: n = d*INT(n/d) + MOD(n, d) does not hold.

For decimals n which are exact multiples of a decimal d (1 = 10 * 0.1), the
binary d is a hair above the decimal d, so Python's float '%' (exact on the
binary values) finds one step less than the decimal quotient and returns a
remainder of almost d, while INT(n/d) - the float quotient is rounded to the
whole number - counts that step.  The two do not add up: the identity is off by
d, not by float noise.  (Excel: MOD(1, 0.1) is ~0; MOD(n,d) = n - d*INT(n/d).)
"""
import logging
import sys

from openpyxl import Workbook

from pycel import ExcelCompiler

logging.disable(logging.CRITICAL)

CASES = [(1, 0.1), (6, 0.1), (1920.8, 0.1), (25.8, 0.05), (202.56, 0.01),
         (4601.9, 0.001), (117320, -0.7), (-29226, -0.1), (966074, 0.1),
         # controls
         (10, 4), (2.2, 1), (-7, 3), (7, -3), (0.3, 0.1), (2.5, 0.5)]

wb = Workbook()
ws = wb.active
for row, (n, d) in enumerate(CASES, start=1):
    ws[f'A{row}'], ws[f'B{row}'] = n, d
    ws[f'C{row}'] = f'=MOD(A{row},B{row})'
    ws[f'D{row}'] = f'=INT(A{row}/B{row})'
    ws[f'E{row}'] = f'=B{row}*INT(A{row}/B{row})+MOD(A{row},B{row})'

compiler = ExcelCompiler(excel=wb)
failures = []
for row, (n, d) in enumerate(CASES, start=1):
    m = compiler.evaluate(f'Sheet!C{row}')
    q = compiler.evaluate(f'Sheet!D{row}')
    back = compiler.evaluate(f'Sheet!E{row}')
    if abs(back - n) > 1e-9 * max(1, abs(n)):
        failures.append(
            f'n={n}, d={d}: INT(n/d)={q}, MOD(n,d)={m!r}, '
            f'd*INT(n/d)+MOD(n,d)={back!r} (off by {back - n:.3g})')

if failures:
    print('C19 violated: n = d*INT(n/d) + MOD(n, d) does not hold:')
    for f in failures:
        print('  ', f)
    sys.exit(1)
print('ok')
