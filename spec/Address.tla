------------------------------ MODULE Address ------------------------------
(***************************************************************************)
(* C11 -- the address algebra of a worksheet.                              *)
(*                                                                         *)
(* A location is a record  [sh, c1, r1, c2, r2] : a sheet name (a sequence *)
(* of character codes, <<>> = "no sheet") and a rectangle of columns       *)
(* c1..c2 (1..16384) and rows r1..r2 (1..1048576); a cell is the           *)
(* rectangle with c1 = c2 and r1 = r2.  This module defines                *)
(*   - column letters (bijective base 26: A..Z, AA..ZZ, AAA..XFD),         *)
(*   - the text renderings of a location: A1 (plain, quoted sheet, $),     *)
(*     R1C1 absolute, R1C1 relative to an anchor cell (offsets wrap at     *)
(*     the sheet limits), and the reading of such text (ParseRef),         *)
(*   - the short notation of whole columns / whole rows (A:C, $1:$3,       *)
(*     C[-1]:C[2]) -- the same location as the two-corner text --, corner  *)
(*     pairs in any order (B2:A1 is A1:B2: ":" is the range operator),     *)
(*   - rectangles as a lattice: Cells, Inter (the common cells or          *)
(*     #NULL!), Union (Excel's range operator ":" = the minimal bounding   *)
(*     rectangle), containment, and the sheet rule of both operators,      *)
(*   - Offset with wrap-around.                                            *)
(* Text is a sequence of character codes so that TLC can take it apart;    *)
(* the harness renders it with chr().                                      *)
(*                                                                         *)
(* Six enumerator machines share the variables (mode selects one; the      *)
(* variables of the others stay at a dummy value):                         *)
(*   "col"    walk over the columns 1..16384 (successor machine; several   *)
(*            start columns only keep the search shallow),                 *)
(*   "coord"  walks of a few steps from seeds next to every boundary       *)
(*            column / row (incl. the wrap 16384 -> 1, 1048576 -> 1),      *)
(*   "sheet"  sheet names built by appending one character,                *)
(*   "pair"   pairs of rectangles on a small dense grid, grown from unit   *)
(*            cells by widening / heightening,                             *)
(*   "big"    the same over a sparse grid of boundary columns and rows,    *)
(*   "triple" triples on the small grid.                                   *)
(* The laws of the property are invariants / action properties over the    *)
(* definitions; Export prints one JSON test vector per state.              *)
(***************************************************************************)
EXTENDS Integers, Sequences, FiniteSets, TLC, Json

CONSTANTS Modes,        \* subset of {"col","coord","sheet","pair","big","triple"}
          ColStarts,    \* columns where a walk of the column machine starts
          ColSeeds, RowSeeds, Steps,   \* coordinate machine
          Anchors,      \* anchor cells <<col, row>> for relative R1C1
          OffCols, OffRows,            \* offsets (integers) for Offset
          Spans,        \* <<dw, dh>>: ranges pt .. pt + <<dw, dh>> in mode "coord"
          RelOffs,      \* offsets of the two corners of a relative R1C1 range whose
                        \* anchor is the current cell (each corner wraps on its own)
          Alphabet, MaxName, SpecialNames,   \* sheet-name machine
          SmallCols, SmallRows,        \* dense grid 1..N
          BigCols, BigRows,            \* sparse grid of boundary coordinates
          ExportTriples               \* BOOLEAN: print a vector per triple

VARIABLES mode, col, pt, nm, ra, rb, rc
vars == <<mode, col, pt, nm, ra, rb, rc>>

MaxCol == 16384
MaxRow == 1048576

Min(a, b) == IF a < b THEN a ELSE b
Max(a, b) == IF a > b THEN a ELSE b

--------------------------------------------------------------------------
(* characters *)
APOS == 39      BANG == 33     DOLLAR == 36    COLON == 58
LBR  == 91      RBR  == 93     MINUS  == 45    SPACE == 32
CH_R == 82      CH_C == 67

IsDigit(ch)  == ch \in 48..57
IsUpper(ch)  == ch \in 65..90
IsLower(ch)  == ch \in 97..122
IsLetter(ch) == IsUpper(ch) \/ IsLower(ch)
Upper(ch)    == IF IsLower(ch) THEN ch - 32 ELSE ch

--------------------------------------------------------------------------
(* column letters: bijective base 26, digits 1..26 (A = 1 .. Z = 26),      *)
(* most significant first.  There is no zero digit: after Z comes AA.      *)

RECURSIVE ColLetters(_)
ColLetters(n) ==
  IF n = 0 THEN <<>>
  ELSE LET d == ((n - 1) % 26) + 1
       IN  ColLetters((n - d) \div 26) \o <<d>>

RECURSIVE ColNumFrom(_, _, _)
ColNumFrom(ds, i, acc) ==
  IF i > Len(ds) THEN acc ELSE ColNumFrom(ds, i + 1, acc * 26 + ds[i])
ColNumber(ds) == ColNumFrom(ds, 1, 0)

\* odometer successor on the letters: Z rolls over to A with a carry, a
\* carry out of the first letter makes the word one letter longer
RECURSIVE LetterSuccAt(_, _)
LetterSuccAt(ds, i) ==
  IF i = 0 THEN <<1>> \o ds
  ELSE IF ds[i] = 26 THEN LetterSuccAt([ds EXCEPT ![i] = 1], i - 1)
       ELSE [ds EXCEPT ![i] = ds[i] + 1]
LetterSucc(ds) == LetterSuccAt(ds, Len(ds))

LetterCodes(n) == LET ds == ColLetters(n) IN [i \in 1..Len(ds) |-> 64 + ds[i]]

--------------------------------------------------------------------------
(* decimal numerals *)

RECURSIVE Dec(_)
Dec(n) == IF n < 10 THEN <<48 + n>> ELSE Dec(n \div 10) \o <<48 + (n % 10)>>
SDec(i) == IF i < 0 THEN <<MINUS>> \o Dec(0 - i) ELSE Dec(i)

RECURSIVE NumFrom(_, _, _)
NumFrom(s, i, acc) ==
  IF i > Len(s) THEN acc ELSE NumFrom(s, i + 1, acc * 10 + (s[i] - 48))
AllDigits(s) == s # <<>> /\ Len(s) <= 8 /\ \A i \in 1..Len(s) : IsDigit(s[i])
Num(s) == NumFrom(s, 1, 0)

--------------------------------------------------------------------------
(* offsets wrap at the sheet limits: column 16384 + 1 is column 1, row 1 - 1 *)
(* is row 1048576 (this is what a relative R1C1 reference does in Excel)    *)

Wrap(x, m) == ((x - 1) % m) + 1
OffsetCell(c, r, dc, dr) == <<Wrap(c + dc, MaxCol), Wrap(r + dr, MaxRow)>>

--------------------------------------------------------------------------
(* sheet names.  Excel: 1..31 characters, none of  : \ / ? * [ ] , not     *)
(* starting or ending with an apostrophe.  In a formula a name is written  *)
(* between apostrophes with every inner apostrophe doubled; the quotes may *)
(* be left out only for "simple" names (NeedsQuote is Excel's rule for     *)
(* that, exported for information -- the property only asks that what is   *)
(* printed can be read back).                                              *)

Forbidden == {58, 92, 47, 63, 42, 91, 93}
LegalName(n) == /\ Len(n) \in 1..31
                /\ \A i \in 1..Len(n) : n[i] \notin Forbidden
                /\ n[1] # APOS /\ n[Len(n)] # APOS

RECURSIVE Doubled(_)
Doubled(n) == IF n = <<>> THEN <<>>
              ELSE (IF Head(n) = APOS THEN <<APOS, APOS>> ELSE <<Head(n)>>)
                   \o Doubled(Tail(n))
QuoteName(n) == <<APOS>> \o Doubled(n) \o <<APOS>>

\* inverse: reads a quoted name starting at text[1] = '; <<ok, name, next>>
\* where next is the position after the closing quote
RECURSIVE UnqFrom(_, _, _)
UnqFrom(t, i, acc) ==
  IF i > Len(t) THEN <<FALSE, <<>>, 0>>
  ELSE IF t[i] # APOS THEN UnqFrom(t, i + 1, Append(acc, t[i]))
  ELSE IF i < Len(t) /\ t[i + 1] = APOS THEN UnqFrom(t, i + 2, Append(acc, APOS))
  ELSE <<TRUE, acc, i + 1>>
Unquote(t) == IF t # <<>> /\ t[1] = APOS THEN UnqFrom(t, 2, <<>>)
              ELSE <<FALSE, <<>>, 0>>

LooksLikeA1(n) ==      \* 1-3 letters then digits: A1, XFD1048576
  \E k \in 1..Min(3, Len(n) - 1) :
     /\ \A i \in 1..k : IsLetter(n[i])
     /\ \A i \in (k + 1)..Len(n) : IsDigit(n[i])
LooksLikeRC(n) ==      \* R, C, RC, R1, C1, R1C1, R1C, RC1
  LET u == [i \in 1..Len(n) |-> Upper(n[i])]
      body(s) == \A i \in 1..Len(s) : IsDigit(s[i])
  IN  \/ (u[1] = CH_R /\ \E k \in 1..Len(u) :
             /\ body(SubSeq(u, 2, k))
             /\ (k = Len(u) \/ (u[k + 1] = CH_C /\ body(SubSeq(u, k + 2, Len(u))))))
      \/ (u[1] = CH_C /\ body(SubSeq(u, 2, Len(u))))
NeedsQuote(n) ==
  \/ \E i \in 1..Len(n) : ~(IsLetter(n[i]) \/ IsDigit(n[i]) \/ n[i] \in {95, 46})
  \/ IsDigit(n[1]) \/ n[1] = 46
  \/ LooksLikeA1(n) \/ LooksLikeRC(n)

--------------------------------------------------------------------------
(* locations and their renderings *)

Loc(sh, c1, r1, c2, r2) == [sh |-> sh, c1 |-> c1, r1 |-> r1, c2 |-> c2, r2 |-> r2]
IsCell(a) == a.c1 = a.c2 /\ a.r1 = a.r2
Height(a) == a.r2 - a.r1 + 1
Width(a)  == a.c2 - a.c1 + 1

\* A1 style: column letters then the row number, "$" marks absolute parts
A1Cell(c, r, abs) ==
  LET d == IF abs THEN <<DOLLAR>> ELSE <<>>
  IN  d \o LetterCodes(c) \o d \o Dec(r)
A1Coord(a, abs) ==
  IF IsCell(a) THEN A1Cell(a.c1, a.r1, abs)
  ELSE A1Cell(a.c1, a.r1, abs) \o <<COLON>> \o A1Cell(a.c2, a.r2, abs)

Prefix(sh, quoted) ==
  IF sh = <<>> THEN <<>>
  ELSE (IF quoted THEN QuoteName(sh) ELSE sh) \o <<BANG>>

\* the four A1 texts of a location: plain / quoted sheet, relative / absolute
PrintA1(a, quoted, abs) == Prefix(a.sh, quoted) \o A1Coord(a, abs)

\* Excel also writes the sheet on both corners: 'S'!A1:'S'!B2
PrintA1Both(a, quoted) ==
  Prefix(a.sh, quoted) \o A1Cell(a.c1, a.r1, FALSE) \o <<COLON>>
  \o Prefix(a.sh, quoted) \o A1Cell(a.c2, a.r2, FALSE)

\* R1C1 style, absolute: R<row>C<col>
RCCell(c, r) == <<CH_R>> \o Dec(r) \o <<CH_C>> \o Dec(c)
RCCoord(a) ==
  IF IsCell(a) THEN RCCell(a.c1, a.r1)
  ELSE RCCell(a.c1, a.r1) \o <<COLON>> \o RCCell(a.c2, a.r2)

\* R1C1 style, relative: R[dr]C[dc] is the cell dr rows below and dc columns
\* right of the anchor; a zero offset may be written without brackets
RelPart(letter, d, bare) ==
  <<letter>> \o (IF d = 0 /\ bare THEN <<>> ELSE <<LBR>> \o SDec(d) \o <<RBR>>)
RelCell(dc, dr, bare) == RelPart(CH_R, dr, bare) \o RelPart(CH_C, dc, bare)

\* whole columns / whole rows.  A range that spans every row is written with
\* its columns only (A:C, $A:$C), one that spans every column with its rows
\* only (1:3, $1:$3); the R1C1 forms are C1:C3 / R1:R3 and, relative to an
\* anchor, C[-1]:C[2] / R:R[3].  The short text and the two-corner text
\* (A1:C1048576) are notations of one location.
FullCols(a) == a.r1 = 1 /\ a.r2 = MaxRow
FullRows(a) == a.c1 = 1 /\ a.c2 = MaxCol
Mark(abs) == IF abs THEN <<DOLLAR>> ELSE <<>>
ColBand(c1, c2, abs) == Mark(abs) \o LetterCodes(c1) \o <<COLON>> \o Mark(abs) \o LetterCodes(c2)
RowBand(r1, r2, abs) == Mark(abs) \o Dec(r1) \o <<COLON>> \o Mark(abs) \o Dec(r2)
ShortCoords(a, abs) ==          \* none, one, or two (the whole sheet) texts
  (IF FullCols(a) THEN {ColBand(a.c1, a.c2, abs)} ELSE {}) \cup
  (IF FullRows(a) THEN {RowBand(a.r1, a.r2, abs)} ELSE {})
PrintShort(a, quoted, abs) == { Prefix(a.sh, quoted) \o t : t \in ShortCoords(a, abs) }
\* every A1 spelling of the coordinate of a location
Coords(a, abs) == {A1Coord(a, abs)} \cup ShortCoords(a, abs)
RelBand(letter, d1, d2, bare1, bare2) ==
  RelPart(letter, d1, bare1) \o <<COLON>> \o RelPart(letter, d2, bare2)

\* the two corners of a range in each of the four orders they can be given in
\* (top-left:bottom-right is how Excel prints them; it reads all four)
CornerOrders(a) == << <<a.c1, a.r1, a.c2, a.r2>>, <<a.c2, a.r2, a.c1, a.r1>>,
                      <<a.c2, a.r1, a.c1, a.r2>>, <<a.c1, a.r2, a.c2, a.r1>> >>
A1Corners(a, k, abs) ==
  LET q == CornerOrders(a)[k]
  IN  A1Cell(q[1], q[2], abs) \o <<COLON>> \o A1Cell(q[3], q[4], abs)
RCCorners(a, k) ==
  LET q == CornerOrders(a)[k]
  IN  RCCell(q[1], q[2]) \o <<COLON>> \o RCCell(q[3], q[4])

--------------------------------------------------------------------------
(* reading text.  ":" cannot occur in a sheet name, so every colon         *)
(* separates two corners.  A corner is [sheet!]cell; the sheet is quoted   *)
(* (then it ends at the closing quote) or it is everything before a "!"    *)
(* such that the rest is a cell.  A cell is A1 (optional $) or R1C1        *)
(* (absolute numbers, or [offset] / nothing = relative to the anchor).     *)
(* The result is a SET of locations (empty = not an address); the round    *)
(* trip laws say that it is the singleton of the printed location.         *)

RECURSIVE SplitAt(_, _, _, _)
SplitAt(t, ch, i, cur) ==
  IF i > Len(t) THEN <<cur>>
  ELSE IF t[i] = ch THEN <<cur>> \o SplitAt(t, ch, i + 1, <<>>)
  ELSE SplitAt(t, ch, i + 1, Append(cur, t[i]))

Strip(s, ch) == SelectSeq(s, LAMBDA x : x # ch)

\* A1 cell -> {<<c, r>>} or {}
ParseA1Cell(s0) ==
  LET s == Strip(s0, DOLLAR)
      k == Cardinality({i \in 1..Len(s) : \A j \in 1..i : IsLetter(s[j])})
      ls == [i \in 1..k |-> Upper(s[i]) - 64]
      ds == SubSeq(s, k + 1, Len(s))
  IN  IF k \in 1..3 /\ AllDigits(ds) /\ ds[1] # 48
         /\ ColNumber(ls) \in 1..MaxCol /\ Num(ds) \in 1..MaxRow
      THEN {<<ColNumber(ls), Num(ds)>>} ELSE {}

\* one R1C1 coordinate "R.." or "C..": the text after the letter
RCPart(s, anchorv, m) ==
  IF s = <<>> THEN {anchorv}
  ELSE IF AllDigits(s) THEN (IF Num(s) \in 1..m THEN {Num(s)} ELSE {})
  ELSE IF Len(s) >= 3 /\ s[1] = LBR /\ s[Len(s)] = RBR
       THEN LET b == SubSeq(s, 2, Len(s) - 1)
                neg == b[1] = MINUS
                d == IF neg THEN Tail(b) ELSE b
            IN  IF AllDigits(d)
                THEN {Wrap(anchorv + (IF neg THEN 0 - Num(d) ELSE Num(d)), m)}
                ELSE {}
       ELSE {}

ParseRCCell(s, anchor) ==
  IF s = <<>> \/ s[1] # CH_R THEN {}
  ELSE LET cs == {i \in 2..Len(s) : s[i] = CH_C}
       IN  UNION { { <<c, r>> : c \in RCPart(SubSeq(s, i + 1, Len(s)), anchor[1], MaxCol),
                                r \in RCPart(SubSeq(s, 2, i - 1), anchor[2], MaxRow) }
                   : i \in cs }

ParseCell(s, anchor) ==
  IF ParseA1Cell(s) # {} THEN ParseA1Cell(s) ELSE ParseRCCell(s, anchor)

\* [sheet!]rest -> set of <<sheet, rest>>: a quoted sheet ends at the closing
\* quote; a bare one is any legal name in front of a "!"
SheetSplits(p) ==
  IF p # <<>> /\ p[1] = APOS
  THEN LET u == Unquote(p)
       IN  IF u[1] /\ u[3] <= Len(p) /\ p[u[3]] = BANG /\ LegalName(u[2])
           THEN { <<u[2], SubSeq(p, u[3] + 1, Len(p))>> }
           ELSE {}
  ELSE { <<<<>>, p>> }
       \cup { <<SubSeq(p, 1, i - 1), SubSeq(p, i + 1, Len(p))>> :
               i \in {j \in 2..Len(p) : p[j] = BANG /\ LegalName(SubSeq(p, 1, j - 1))} }

\* a corner -> set of <<sheet, c, r>>
ParseCorner(p, anchor) ==
  UNION { { <<x[1], y[1], y[2]>> : y \in ParseCell(x[2], anchor) } : x \in SheetSplits(p) }

\* one side of a whole-column / whole-row text -> {<<"col", c>>} / {<<"row", r>>}
ParseA1Band(s0) ==
  LET s == Strip(s0, DOLLAR)
  IN  IF s = <<>> THEN {}
      ELSE IF Len(s) <= 3 /\ \A i \in 1..Len(s) : IsLetter(s[i])
      THEN LET n == ColNumber([i \in 1..Len(s) |-> Upper(s[i]) - 64])
           IN  IF n \in 1..MaxCol THEN {<<"col", n>>} ELSE {}
      ELSE IF AllDigits(s) /\ s[1] # 48 /\ Num(s) \in 1..MaxRow THEN {<<"row", Num(s)>>}
      ELSE {}
ParseRCBand(s, anchor) ==
  IF s = <<>> THEN {}
  ELSE IF s[1] = CH_C THEN { <<"col", x>> : x \in RCPart(Tail(s), anchor[1], MaxCol) }
  ELSE IF s[1] = CH_R THEN { <<"row", x>> : x \in RCPart(Tail(s), anchor[2], MaxRow) }
  ELSE {}
BandCorner(p, anchor, r1c1) ==
  UNION { { <<x[1], y[1], y[2]>> :
            y \in IF r1c1 THEN ParseRCBand(x[2], anchor) ELSE ParseA1Band(x[2]) } :
          x \in SheetSplits(p) }
BandLoc(sh, kind, u, v) ==
  IF kind = "col" THEN Loc(sh, Min(u, v), 1, Max(u, v), MaxRow)
  ELSE Loc(sh, 1, Min(u, v), MaxCol, Max(u, v))
\* two sides of the same kind; read as A1 if that is possible ("C:C" is column
\* C, not the anchor's column), else as R1C1
ParseBands(parts, anchor) ==
  LET read(r1c1) ==
        { BandLoc(IF xy[1][1] = <<>> THEN xy[2][1] ELSE xy[1][1], xy[1][2], xy[1][3], xy[2][3]) :
          xy \in { w \in BandCorner(parts[1], anchor, r1c1) \X BandCorner(parts[2], anchor, r1c1) :
                    /\ w[1][2] = w[2][2]
                    /\ (w[1][1] = <<>> \/ w[2][1] = <<>> \/ w[1][1] = w[2][1]) } }
  IN  IF Len(parts) # 2 THEN {}
      ELSE IF read(FALSE) # {} THEN read(FALSE) ELSE read(TRUE)

\* corners are folded with the range operator (bounding rectangle); a later
\* corner may repeat the sheet of the first one but not name another
RECURSIVE FoldCorners(_, _, _, _)
FoldCorners(parts, i, anchor, acc) ==
  IF i > Len(parts) THEN acc
  ELSE FoldCorners(parts, i + 1, anchor,
         { Loc(IF a.sh = <<>> THEN x[1] ELSE a.sh,
               Min(a.c1, x[2]), Min(a.r1, x[3]), Max(a.c2, x[2]), Max(a.r2, x[3])) :
           <<a, x>> \in { <<a, x>> \in acc \X ParseCorner(parts[i], anchor) :
                           x[1] = <<>> \/ a.sh = <<>> \/ x[1] = a.sh } })

ParseRef(t, anchor) ==
  LET parts == SplitAt(t, COLON, 1, <<>>)
      cells == FoldCorners(parts, 2, anchor,
                 { Loc(x[1], x[2], x[3], x[2], x[3]) : x \in ParseCorner(parts[1], anchor) })
  IN  IF cells # {} THEN cells ELSE ParseBands(parts, anchor)

NoAnchor == <<1, 1>>

--------------------------------------------------------------------------
(* rectangles <<c1, r1, c2, r2>> with c1 <= c2, r1 <= r2; Null = #NULL!    *)

Null == <<>>
Rect(c1, r1, c2, r2) == <<c1, r1, c2, r2>>
InRect(c, r, x) == x # Null /\ x[1] <= c /\ c <= x[3] /\ x[2] <= r /\ r <= x[4]
RH(x) == x[4] - x[2] + 1
RW(x) == x[3] - x[1] + 1

\* the common cells, or #NULL! when there are none; #NULL! absorbs
Inter(x, y) ==
  IF x = Null \/ y = Null THEN Null
  ELSE LET c1 == Max(x[1], y[1])  r1 == Max(x[2], y[2])
           c2 == Min(x[3], y[3])  r2 == Min(x[4], y[4])
       IN  IF c2 < c1 \/ r2 < r1 THEN Null ELSE Rect(c1, r1, c2, r2)

\* Excel's range operator: the smallest rectangle holding both
Union(x, y) ==
  Rect(Min(x[1], y[1]), Min(x[2], y[2]), Max(x[3], y[3]), Max(x[4], y[4]))

Subset(x, y) == x[1] >= y[1] /\ x[2] >= y[2] /\ x[3] <= y[3] /\ x[4] <= y[4]

\* sheets of the operands: "" joins anything, two different names are #VALUE!
SheetJoin(s, t) == IF s = <<>> THEN <<TRUE, t>>
                   ELSE IF t = <<>> \/ t = s THEN <<TRUE, s>>
                   ELSE <<FALSE, <<>>>>

\* cells of a rectangle as a sequence of rows (what .rows / resolve_range give)
RowsOf(x) == [i \in 1..RH(x) |-> [j \in 1..RW(x) |-> <<x[1] + j - 1, x[2] + i - 1>>]]
ColsOf(x) == [j \in 1..RW(x) |-> [i \in 1..RH(x) |-> <<x[1] + j - 1, x[2] + i - 1>>]]

--------------------------------------------------------------------------
(* the machines *)

Z4 == <<0, 0, 0, 0>>
RectModes == {"pair", "big", "triple"}
GCols == IF mode = "big" THEN BigCols ELSE SmallCols
GRows == IF mode = "big" THEN BigRows ELSE SmallRows
Units == { Rect(c, r, c, r) : c \in GCols, r \in GRows }

\* probe cells: the grid and its neighbours (a sparse grid cannot be
\* enumerated cell by cell; rectangles with corners on the grid are told
\* apart by the probes)
Near(S, m) == { x \in UNION { {s - 1, s, s + 1} : s \in S } : x \in 1..m }
PCols == IF mode = "big" THEN Near(BigCols, MaxCol) ELSE SmallCols
PRows == IF mode = "big" THEN Near(BigRows, MaxRow) ELSE SmallRows
CellsP(x) == { p \in PCols \X PRows : InRect(p[1], p[2], x) }

Init ==
  /\ mode \in Modes
  /\ col \in IF mode = "col" THEN ColStarts ELSE {0}
  /\ pt \in IF mode = "coord"
            THEN { <<c, r, Steps>> : c \in ColSeeds, r \in RowSeeds }
            ELSE { <<0, 0, 0>> }
  /\ nm \in IF mode = "sheet" THEN {<<>>} \cup SpecialNames ELSE {<<>>}
  /\ ra \in IF mode \in RectModes THEN Units ELSE {Z4}
  /\ rb \in IF mode \in RectModes THEN Units ELSE {Z4}
  /\ rc \in IF mode = "triple" THEN Units ELSE {Z4}

WalkColumn == /\ mode = "col" /\ col < MaxCol
              /\ col' = col + 1
              /\ UNCHANGED <<mode, pt, nm, ra, rb, rc>>

StepCol == /\ mode = "coord" /\ pt[3] > 0
           /\ pt' = <<Wrap(pt[1] + 1, MaxCol), pt[2], pt[3] - 1>>
           /\ UNCHANGED <<mode, col, nm, ra, rb, rc>>

StepRow == /\ mode = "coord" /\ pt[3] > 0
           /\ pt' = <<pt[1], Wrap(pt[2] + 1, MaxRow), pt[3] - 1>>
           /\ UNCHANGED <<mode, col, nm, ra, rb, rc>>

AppendChar == /\ mode = "sheet" /\ Len(nm) < MaxName
              /\ \E ch \in Alphabet : nm' = Append(nm, ch)
              /\ UNCHANGED <<mode, col, pt, ra, rb, rc>>

NextIn(S, x) == CHOOSE y \in S : y > x /\ \A z \in S : z > x => y <= z
Widen(x)    == IF \E y \in GCols : y > x[3] THEN {[x EXCEPT ![3] = NextIn(GCols, x[3])]} ELSE {}
Heighten(x) == IF \E y \in GRows : y > x[4] THEN {[x EXCEPT ![4] = NextIn(GRows, x[4])]} ELSE {}

WidenA    == mode \in RectModes /\ ra' \in Widen(ra)    /\ UNCHANGED <<mode, col, pt, nm, rb, rc>>
HeightenA == mode \in RectModes /\ ra' \in Heighten(ra) /\ UNCHANGED <<mode, col, pt, nm, rb, rc>>
WidenB    == mode \in RectModes /\ rb' \in Widen(rb)    /\ UNCHANGED <<mode, col, pt, nm, ra, rc>>
HeightenB == mode \in RectModes /\ rb' \in Heighten(rb) /\ UNCHANGED <<mode, col, pt, nm, ra, rc>>
WidenC    == mode = "triple"    /\ rc' \in Widen(rc)    /\ UNCHANGED <<mode, col, pt, nm, ra, rb>>
HeightenC == mode = "triple"    /\ rc' \in Heighten(rc) /\ UNCHANGED <<mode, col, pt, nm, ra, rb>>

Next == \/ WalkColumn \/ StepCol \/ StepRow \/ AppendChar
        \/ WidenA \/ HeightenA \/ WidenB \/ HeightenB \/ WidenC \/ HeightenC

Spec == Init /\ [][Next]_vars

--------------------------------------------------------------------------
(* laws *)

IsRect(x, C, R) == /\ x[1] \in C /\ x[3] \in C /\ x[2] \in R /\ x[4] \in R
                   /\ x[1] <= x[3] /\ x[2] <= x[4]

TypeOK ==
  /\ mode \in Modes
  /\ mode = "col" => col \in 1..MaxCol
  /\ mode = "coord" => pt[1] \in 1..MaxCol /\ pt[2] \in 1..MaxRow /\ pt[3] \in 0..Steps
  /\ mode = "sheet" => Len(nm) <= MaxName \/ nm \in SpecialNames
  /\ mode \in RectModes => IsRect(ra, GCols, GRows) /\ IsRect(rb, GCols, GRows)
  /\ mode = "triple" => IsRect(rc, GCols, GRows)

\* letters and numbers are inverse; word length changes exactly at Z|AA, ZZ|AAA
ColInverse ==
  mode = "col" =>
    LET ds == ColLetters(col)
    IN  /\ ColNumber(ds) = col
        /\ \A i \in 1..Len(ds) : ds[i] \in 1..26
        /\ Len(ds) = IF col <= 26 THEN 1 ELSE IF col <= 702 THEN 2 ELSE 3
        /\ ParseA1Cell(LetterCodes(col) \o <<49>>) = {<<col, 1>>}
        /\ col = 26 => ds = <<26>>
        /\ col = 27 => ds = <<1, 1>>
        /\ col = 702 => ds = <<26, 26>>
        /\ col = 703 => ds = <<1, 1, 1>>
        /\ col = 16384 => ds = <<24, 6, 4>>          \* XFD

\* the next column has the next word
ColSucc == [][mode = "col" => ColLetters(col') = LetterSucc(ColLetters(col))]_vars

\* the three notations of one cell / range denote the same location
CoordRoundTrip ==
  mode = "coord" =>
    LET c == pt[1]  r == pt[2]
        cell == Loc(<<>>, c, r, c, r)
    IN  /\ \A abs \in BOOLEAN : ParseRef(PrintA1(cell, FALSE, abs), NoAnchor) = {cell}
        /\ ParseRef(RCCoord(cell), NoAnchor) = {cell}
        /\ \A an \in Anchors : \A k \in {-1, 0, 1} : \A bare \in BOOLEAN :
             LET dc == c - an[1] + k * MaxCol
                 dr == r - an[2] + k * MaxRow
             IN  /\ OffsetCell(an[1], an[2], dc, dr) = <<c, r>>
                 /\ ParseRef(RelCell(dc, dr, bare), an) = {cell}
        /\ \A sp \in Spans :
             (c + sp[1] <= MaxCol /\ r + sp[2] <= MaxRow) =>
               LET a == Loc(<<>>, c, r, c + sp[1], r + sp[2])
               IN  /\ \A abs \in BOOLEAN : ParseRef(PrintA1(a, FALSE, abs), NoAnchor) = {a}
                   /\ ParseRef(RCCoord(a), NoAnchor) = {a}
                   /\ ParseRef(PrintA1Both(a, FALSE), NoAnchor) = {a}
                   \* whichever two opposite corners are named, in either order
                   /\ \A k \in 1..4 :
                        /\ \A abs \in BOOLEAN : ParseRef(A1Corners(a, k, abs), NoAnchor) = {a}
                        /\ ParseRef(RCCorners(a, k), NoAnchor) = {a}

\* whole columns / whole rows: the short text (either order of its sides, $ or
\* not, relative R1C1 from every anchor) and the two-corner text read as the
\* same location
BandRoundTrip ==
  mode = "coord" =>
    \A sp \in Spans :
      /\ pt[1] + sp[1] <= MaxCol =>
           LET c1 == pt[1]  c2 == pt[1] + sp[1]
               a == Loc(<<>>, c1, 1, c2, MaxRow)
           IN  /\ \A abs \in BOOLEAN :
                    /\ ParseRef(ColBand(c1, c2, abs), NoAnchor) = {a}
                    /\ ParseRef(ColBand(c2, c1, abs), NoAnchor) = {a}
                    /\ ParseRef(A1Coord(a, abs), NoAnchor) = {a}
               /\ \A an \in Anchors : \A k \in {-1, 0, 1} : \A bare \in BOOLEAN :
                    ParseRef(RelBand(CH_C, c1 - an[1] + k * MaxCol, c2 - an[1] + k * MaxCol,
                                     FALSE, bare), an) = {a}
      /\ pt[2] + sp[2] <= MaxRow =>
           LET r1 == pt[2]  r2 == pt[2] + sp[2]
               a == Loc(<<>>, 1, r1, MaxCol, r2)
           IN  /\ \A abs \in BOOLEAN :
                    /\ ParseRef(RowBand(r1, r2, abs), NoAnchor) = {a}
                    /\ ParseRef(RowBand(r2, r1, abs), NoAnchor) = {a}
                    /\ ParseRef(A1Coord(a, abs), NoAnchor) = {a}
               /\ \A an \in Anchors : \A k \in {-1, 0, 1} : \A bare \in BOOLEAN :
                    ParseRef(RelBand(CH_R, r1 - an[2] + k * MaxRow, r2 - an[2] + k * MaxRow,
                                     FALSE, bare), an) = {a}

\* a relative R1C1 range anchored at the current cell: each corner is the
\* offset cell (wrapping on its own), the range is what the range operator
\* makes of the two -- also when the wrap puts the "first" corner behind the
\* "second" one
SpanOf(p, q) == Loc(<<>>, Min(p[1], q[1]), Min(p[2], q[2]), Max(p[1], q[1]), Max(p[2], q[2]))
OffPairs == { dd \in RelOffs \X RelOffs : dd[1] # dd[2] }
RelSpans ==
  mode = "coord" =>
    LET an == <<pt[1], pt[2]>> IN
    \A dc \in OffPairs :
      /\ \A dr \in OffPairs :
           LET p == OffsetCell(an[1], an[2], dc[1], dr[1])
               q == OffsetCell(an[1], an[2], dc[2], dr[2])
           IN  ParseRef(RelCell(dc[1], dr[1], TRUE) \o <<COLON>> \o RelCell(dc[2], dr[2], FALSE), an)
                 = {SpanOf(p, q)}
      /\ LET u == OffsetCell(an[1], an[2], dc[1], 0)[1]
             v == OffsetCell(an[1], an[2], dc[2], 0)[1]
         IN  ParseRef(RelBand(CH_C, dc[1], dc[2], TRUE, TRUE), an)
               = {Loc(<<>>, Min(u, v), 1, Max(u, v), MaxRow)}
      /\ LET u == OffsetCell(an[1], an[2], 0, dc[1])[2]
             v == OffsetCell(an[1], an[2], 0, dc[2])[2]
         IN  ParseRef(RelBand(CH_R, dc[1], dc[2], TRUE, TRUE), an)
               = {Loc(<<>>, 1, Min(u, v), MaxCol, Max(u, v))}

\* offsets: stay on the sheet, compose, are undone by the opposite offset,
\* and a whole sheet width / height is the identity
OffsetWrap ==
  mode = "coord" =>
    \A dc \in OffCols : \A dr \in OffRows :
      LET q == OffsetCell(pt[1], pt[2], dc, dr)
      IN  /\ q[1] \in 1..MaxCol /\ q[2] \in 1..MaxRow
          /\ OffsetCell(q[1], q[2], 0 - dc, 0 - dr) = <<pt[1], pt[2]>>
          /\ OffsetCell(pt[1], pt[2], dc + MaxCol, dr - MaxRow) = q
          /\ \A dc2 \in OffCols :
               OffsetCell(q[1], q[2], dc2, 0) = OffsetCell(pt[1], pt[2], dc + dc2, dr)

\* sheet names: quoting is undone by unquoting, and every printed form of an
\* address on that sheet reads back as that address only
ProbeLocs(sh) == { Loc(sh, 2, 2, 2, 2), Loc(sh, 2, 2, 3, 4),
                   Loc(sh, MaxCol, MaxRow, MaxCol, MaxRow) }
BandLocs(sh) == { Loc(sh, 2, 1, 3, MaxRow), Loc(sh, 1, 2, MaxCol, 4) }
SheetRoundTrip ==
  (mode = "sheet" /\ LegalName(nm)) =>
    /\ Unquote(QuoteName(nm)) = <<TRUE, nm, Len(QuoteName(nm)) + 1>>
    /\ \A a \in ProbeLocs(nm) :
         /\ \A q \in BOOLEAN : \A abs \in BOOLEAN :
              ParseRef(PrintA1(a, q, abs), NoAnchor) = {a}
         /\ IsCell(a) \/ ParseRef(PrintA1Both(a, TRUE), NoAnchor) = {a}
    /\ \A a \in BandLocs(nm) : \A q \in BOOLEAN : \A abs \in BOOLEAN :
         /\ PrintShort(a, q, abs) # {}
         /\ \A t \in PrintShort(a, q, abs) : ParseRef(t, NoAnchor) = {a}

\* a range has exactly height x width cells, each contained in it
CellsCount ==
  mode = "pair" =>
    /\ Cardinality(CellsP(ra)) = RH(ra) * RW(ra)
    /\ \A i \in 1..RH(ra) : \A j \in 1..RW(ra) :
         LET p == RowsOf(ra)[i][j]
         IN  InRect(p[1], p[2], ra) /\ ColsOf(ra)[j][i] = p
    /\ { RowsOf(ra)[i][j] : i \in 1..RH(ra), j \in 1..RW(ra) } = CellsP(ra)
    \* the same cells whichever corners name the range
    /\ LET a == Loc(<<>>, ra[1], ra[2], ra[3], ra[4])
       IN  IsCell(a) \/ \A k \in 1..4 : ParseRef(A1Corners(a, k, FALSE), NoAnchor) = {a}

\* intersection = exactly the common cells; union = the least rectangle of
\* the grid that holds both; both commutative and idempotent; containment
PairLaws ==
  mode \in {"pair", "big"} =>          \* (the pairs of "triple" are those of "pair")
    LET i == Inter(ra, rb)  u == Union(ra, rb)
        A == CellsP(ra)  B == CellsP(rb)  I == CellsP(i)  U == CellsP(u)
    IN  /\ I = A \cap B
        /\ (i = Null) = (A \cap B = {})
        /\ i = Null \/ IsRect(i, GCols, GRows)
        /\ IsRect(u, GCols, GRows)
        /\ A \cup B \subseteq U
        /\ IF mode = "big"
           THEN \* rectangles are closed under intersection, so "least" is
                \* "no side can be pulled in by one cell"
                \A k \in 1..4 :
                  LET v == [u EXCEPT ![k] = IF k <= 2 THEN u[k] + 1 ELSE u[k] - 1]
                  IN  ~(A \cup B \subseteq CellsP(v))
           ELSE \A c1 \in GCols, c2 \in GCols, r1 \in GRows, r2 \in GRows :
                  (c1 <= c2 /\ r1 <= r2 /\ A \cup B \subseteq CellsP(Rect(c1, r1, c2, r2)))
                  => U \subseteq CellsP(Rect(c1, r1, c2, r2))
        /\ i = Inter(rb, ra) /\ u = Union(rb, ra)
        /\ Inter(ra, ra) = ra /\ Union(ra, ra) = ra
        /\ Subset(ra, rb) = (A \subseteq B)
        /\ Subset(ra, rb) = (i = ra)
        /\ Subset(ra, rb) = (u = rb)
        /\ Inter(ra, u) = ra /\ (i = Null \/ Union(ra, i) = ra)     \* absorption

TripleLaws ==
  mode = "triple" =>
    /\ Inter(Inter(ra, rb), rc) = Inter(ra, Inter(rb, rc))
    /\ Union(Union(ra, rb), rc) = Union(ra, Union(rb, rc))
    /\ CellsP(Inter(Inter(ra, rb), rc)) = CellsP(ra) \cap CellsP(rb) \cap CellsP(rc)

\* the sheet rule is itself commutative and associative
SheetNames3 == {<<>>, <<83>>, <<84>>}
SheetLaws ==
  \A s \in SheetNames3, t \in SheetNames3 :
    /\ SheetJoin(s, t)[1] = SheetJoin(t, s)[1]
    /\ SheetJoin(s, t)[1] => SheetJoin(s, t)[2] = SheetJoin(t, s)[2]
    /\ SheetJoin(s, s) = <<TRUE, s>>

--------------------------------------------------------------------------
(* test vectors *)

JRect(x) == IF x = Null THEN <<>> ELSE x

ExportCol == [m |-> "col", n |-> col, letters |-> LetterCodes(col)]

\* a whole-column ("col") or whole-row ("row") range lo..hi in its notations
ExportBand(kind, lo, hi) ==
  LET a == IF kind = "col" THEN Loc(<<>>, lo, 1, hi, MaxRow) ELSE Loc(<<>>, 1, lo, MaxCol, hi)
      txt(u, v, abs) == IF kind = "col" THEN ColBand(u, v, abs) ELSE RowBand(u, v, abs)
  IN  [kind |-> kind, rect |-> <<a.c1, a.r1, a.c2, a.r2>>,
       a1 |-> txt(lo, hi, FALSE), abs |-> txt(lo, hi, TRUE), rev |-> txt(hi, lo, FALSE),
       long |-> A1Coord(a, FALSE), longabs |-> A1Coord(a, TRUE),
       rel |-> { [ac |-> an[1], ar |-> an[2],
                  t |-> RelBand(IF kind = "col" THEN CH_C ELSE CH_R,
                                lo - (IF kind = "col" THEN an[1] ELSE an[2]),
                                hi - (IF kind = "col" THEN an[1] ELSE an[2]), FALSE, bare)] :
                 an \in Anchors, bare \in BOOLEAN }]

ExportCoord ==
  LET c == pt[1]  r == pt[2]
      cell == Loc(<<>>, c, r, c, r)
  IN  [m |-> "coord", c |-> c, r |-> r,
       letters |-> LetterCodes(c),
       a1  |-> PrintA1(cell, FALSE, FALSE),
       abs |-> PrintA1(cell, FALSE, TRUE),
       rc  |-> RCCoord(cell),
       rel |-> { [ac |-> an[1], ar |-> an[2],
                  t |-> RelCell(c - an[1] + k * MaxCol, r - an[2] + k * MaxRow, bare)] :
                 an \in Anchors, k \in {-1, 0, 1}, bare \in BOOLEAN },
       off |-> { <<dc, dr, OffsetCell(c, r, dc, dr)[1], OffsetCell(c, r, dc, dr)[2]>> :
                 dc \in OffCols, dr \in OffRows },
       ranges |-> { [c2 |-> c + sp[1], r2 |-> r + sp[2],
                     a1   |-> A1Coord(Loc(<<>>, c, r, c + sp[1], r + sp[2]), FALSE),
                     abs  |-> A1Coord(Loc(<<>>, c, r, c + sp[1], r + sp[2]), TRUE),
                     rc   |-> RCCoord(Loc(<<>>, c, r, c + sp[1], r + sp[2])),
                     corners |-> { A1Corners(Loc(<<>>, c, r, c + sp[1], r + sp[2]), k, abs) :
                                   k \in 1..4, abs \in BOOLEAN }
                                 \cup { RCCorners(Loc(<<>>, c, r, c + sp[1], r + sp[2]), k) : k \in 1..4 },
                     rel  |-> { [ac |-> an[1], ar |-> an[2],
                                 t |-> RelCell(c - an[1], r - an[2], TRUE) \o <<COLON>>
                                       \o RelCell(c + sp[1] - an[1], r + sp[2] - an[2], FALSE)] :
                                an \in Anchors }] :
                    sp \in { s \in Spans : s # <<0, 0>> /\ c + s[1] <= MaxCol /\ r + s[2] <= MaxRow } },
       bands |-> { ExportBand("col", c, c + sp[1]) : sp \in { s \in Spans : c + s[1] <= MaxCol } }
                 \cup { ExportBand("row", r, r + sp[2]) : sp \in { s \in Spans : r + s[2] <= MaxRow } },
       relspans |-> { LET a == SpanOf(OffsetCell(c, r, dc[1], dr[1]), OffsetCell(c, r, dc[2], dr[2]))
                      IN  [t |-> RelCell(dc[1], dr[1], TRUE) \o <<COLON>> \o RelCell(dc[2], dr[2], FALSE),
                           rect |-> <<a.c1, a.r1, a.c2, a.r2>>] :
                      dc \in OffPairs, dr \in OffPairs }
                    \cup { LET u == OffsetCell(c, r, dc[1], 0)[1]
                               v == OffsetCell(c, r, dc[2], 0)[1]
                           IN  [t |-> RelBand(CH_C, dc[1], dc[2], TRUE, TRUE),
                                rect |-> <<Min(u, v), 1, Max(u, v), MaxRow>>] : dc \in OffPairs }
                    \cup { LET u == OffsetCell(c, r, 0, dr[1])[2]
                               v == OffsetCell(c, r, 0, dr[2])[2]
                           IN  [t |-> RelBand(CH_R, dr[1], dr[2], TRUE, TRUE),
                                rect |-> <<1, Min(u, v), MaxCol, Max(u, v)>>] : dr \in OffPairs }]

ExportSheet ==
  [m |-> "sheet", name |-> nm, legal |-> LegalName(nm),
   quoted |-> IF LegalName(nm) THEN QuoteName(nm) ELSE <<>>,
   needs_quote |-> IF LegalName(nm) THEN NeedsQuote(nm) ELSE FALSE]

SheetCombos ==
  { [sa |-> s, sb |-> t, ok |-> SheetJoin(s, t)[1], sh |-> SheetJoin(s, t)[2]] :
    s \in SheetNames3, t \in SheetNames3 }

ExportPair ==
  [m |-> mode, a |-> ra, b |-> rb,
   inter |-> JRect(Inter(ra, rb)), union |-> Union(ra, rb),
   sub |-> Subset(ra, rb),
   \* the short spellings of whole-column / whole-row operands
   short_a |-> ShortCoords(Loc(<<>>, ra[1], ra[2], ra[3], ra[4]), FALSE),
   short_b |-> ShortCoords(Loc(<<>>, rb[1], rb[2], rb[3], rb[4]), FALSE),
   short_i |-> IF Inter(ra, rb) = Null THEN {}
               ELSE LET i == Inter(ra, rb) IN ShortCoords(Loc(<<>>, i[1], i[2], i[3], i[4]), FALSE),
   short_u |-> LET u == Union(ra, rb) IN ShortCoords(Loc(<<>>, u[1], u[2], u[3], u[4]), FALSE),
   corners |-> IF mode = "pair" /\ ra = rb /\ (RW(ra) > 1 \/ RH(ra) > 1)
               THEN { A1Corners(Loc(<<>>, ra[1], ra[2], ra[3], ra[4]), k, FALSE) : k \in 1..4 }
               ELSE {},
   cells_in_a |-> IF mode = "pair"
                    THEN { <<p[1], p[2], InRect(p[1], p[2], ra)>> : p \in PCols \X PRows }
                    ELSE { <<p[1], p[2], InRect(p[1], p[2], ra)>> :
                           p \in {rb[1], rb[3]} \X {rb[2], rb[4]} },
   rows |-> IF mode = "pair" /\ ra = rb THEN RowsOf(ra) ELSE <<>>,
   cols |-> IF mode = "pair" /\ ra = rb THEN ColsOf(ra) ELSE <<>>,
   combos |-> IF ra = rb /\ RW(ra) = 1 /\ RH(ra) = 1 THEN SheetCombos ELSE {}]

ExportTriple ==
  [m |-> "triple", a |-> ra, b |-> rb, c |-> rc,
   inter |-> JRect(Inter(Inter(ra, rb), rc)),
   union |-> Union(Union(ra, rb), rc)]

Export ==
  CASE mode = "col"    -> PrintT(ToJson(ExportCol))
    [] mode = "coord"  -> PrintT(ToJson(ExportCoord))
    [] mode = "sheet"  -> PrintT(ToJson(ExportSheet))
    [] mode = "triple" -> IF ExportTriples THEN PrintT(ToJson(ExportTriple)) ELSE TRUE
    [] OTHER           -> PrintT(ToJson(ExportPair))
=============================================================================
