CONSTANTS
  Modes <- MCModes
  ColStarts <- MCColStarts
  ColSeeds <- MCColSeeds
  RowSeeds <- MCRowSeeds
  Steps <- MCSteps
  Anchors <- MCAnchors
  OffCols <- MCOffCols
  OffRows <- MCOffRows
  Spans <- MCSpans
  RelOffs <- MCRelOffs
  Alphabet <- MCAlphabet
  MaxName <- MCMaxName
  SpecialNames <- MCSpecialNames
  SmallCols <- MCSmallCols
  SmallRows <- MCSmallRows
  BigCols <- MCBigCols
  BigRows <- MCBigRows
  ExportTriples <- MCExportTriples
SPECIFICATION Spec
INVARIANT TypeOK
INVARIANT ColInverse
INVARIANT CoordRoundTrip
INVARIANT OffsetWrap
INVARIANT BandRoundTrip
INVARIANT RelSpans
INVARIANT SheetRoundTrip
INVARIANT CellsCount
INVARIANT PairLaws
INVARIANT TripleLaws
INVARIANT SheetLaws
INVARIANT Export
PROPERTY ColSucc
