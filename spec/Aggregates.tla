----------------------------- MODULE Aggregates -----------------------------
(***************************************************************************)
(* C14 -- SUM, AVERAGE, MIN, MAX, COUNT, SUBTOTAL and SUMPRODUCT over      *)
(* worksheet ranges.                                                       *)
(*                                                                         *)
(* A range is the row-major sequence s of its cell values; every h x w     *)
(* factorisation of Len(s) is a shape of the same range (Matrix/Flatten).  *)
(* The enumerator machine builds s by appending one cell from Pool at a    *)
(* time, so TLC visits every sequence up to MaxLen.                        *)
(*                                                                         *)
(* Excel's counting rules for a RANGE argument, as the property states     *)
(* them: only numeric cells take part (text -- even "3" --, logicals and   *)
(* blanks are ignored); if the range holds an error value the result is    *)
(* the first one in row-major order; AVERAGE of nothing numeric is         *)
(* #DIV/0!, MIN/MAX of nothing numeric is 0, SUM of nothing numeric is 0.  *)
(*                                                                         *)
(* Agg(fn, q) is the SET of allowed results.  It is a singleton except for *)
(* COUNT over a range holding an error: the statement lists COUNT among    *)
(* the functions that "return the first error value present" while Excel's *)
(* COUNT skips error cells, so both answers are allowed.                   *)
(***************************************************************************)
EXTENDS CellValues, TLC, Json

CONSTANTS Pool,        \* cell values the enumerator appends
          MaxLen,      \* longest sequence built
          PartMax      \* general (non-contiguous) partitions checked up to this length

VARIABLES s            \* the range, row-major
vars == <<s>>

Fns == {"SUM", "AVERAGE", "MIN", "MAX", "COUNT"}

--------------------------------------------------------------------------
(* the definitions *)

\* error-free meaning of each function: numeric cells only (countBools = FALSE)
Value(fn, q) ==
  CASE fn = "SUM"     -> VSum(q, FALSE)
    [] fn = "AVERAGE" -> VAvg(q, FALSE)
    [] fn = "MIN"     -> VMin(q, FALSE)
    [] fn = "MAX"     -> VMax(q, FALSE)
    [] fn = "COUNT"   -> VCount(q, FALSE)

Agg(fn, q) ==
  IF HasErr(q)
  THEN IF fn = "COUNT" THEN {FirstErr(q), VCount(q, FALSE)} ELSE {FirstErr(q)}
  ELSE {Value(fn, q)}

The(S) == CHOOSE x \in S : TRUE          \* the element of a singleton

\* SUBTOTAL(n, range): n names the function; 101.. are the "ignore hidden
\* rows" variants, which on a sheet without hidden rows are the same
SubtotalNums == {1, 2, 4, 5, 9}
SubtotalName(n) ==
  LET m == IF n > 100 THEN n - 100 ELSE n
  IN  CASE m = 1 -> "AVERAGE" [] m = 2 -> "COUNT" [] m = 4 -> "MAX"
        [] m = 5 -> "MIN"     [] m = 9 -> "SUM"
Subtotal(n, q) == Agg(SubtotalName(n), q)

\* SUMPRODUCT of two equally shaped ranges (same length here; the shape is
\* the harness's business): pointwise products, anything that is not a
\* number counts as 0.  With error cells the result is an error value of
\* one of the ranges (which one when several differ is not fixed by the
\* statement: position-major or argument-major).
NK(v) == IF IsNum(v) THEN v[2] ELSE 0
SPK(q, t) == LET f == [i \in DOMAIN q |-> NK(q[i]) * NK(t[i])] IN SumTo(f, Len(q))
SumProduct(q, t) ==
  IF HasErr(q) \/ HasErr(t) THEN ErrSet(q) \cup ErrSet(t)
  ELSE {R(SPK(q, t), Scale * Scale)}

--------------------------------------------------------------------------
(* shapes and rearrangements *)

Shapes(n) == {hw \in (1..n) \X (1..n) : hw[1] * hw[2] = n}
Matrix(q, h, w) == [r \in 1..h |-> [c \in 1..w |-> q[(r - 1) * w + c]]]
Flatten(M, h, w) == [i \in 1..(h * w) |-> M[((i - 1) \div w) + 1][((i - 1) % w) + 1]]
\* the transposed rectangle read row-major = the rectangle read column-major:
\* cell i of the w x h result is M[((i-1) % h) + 1][((i-1) \div h) + 1]
Transposed(q, h, w) ==
  [i \in 1..(h * w) |-> q[((i - 1) % h) * w + ((i - 1) \div h) + 1]]

Swap(q, i) == [q EXCEPT ![i] = q[i + 1], ![i + 1] = q[i]]
Rot(q) == IF q = <<>> THEN q ELSE Tail(q) \o <<Head(q)>>

RECURSIVE Pick(_, _, _)
\* subsequence of q at the indices I, order kept (one block of a partition)
Pick(q, I, i) == IF i > Len(q) THEN <<>>
                 ELSE (IF i \in I THEN <<q[i]>> ELSE <<>>) \o Pick(q, I, i + 1)

\* SUM of a union: first argument's error wins, then the second's
Plus(x, y) == IF IsErr(x) THEN x ELSE IF IsErr(y) THEN y ELSE RAdd(x, y)
Same(x, y) == IF IsR(x) /\ IsR(y) THEN REq(x, y) ELSE x = y

RMin2(x, y) == IF RLe(x, y) THEN x ELSE y
RMax2(x, y) == IF RLe(x, y) THEN y ELSE x

OneErrKind(q) == Cardinality(ErrSet(q)) <= 1

\* where a range is cut in two: everywhere for short ranges, at the ends and
\* in the middle for long ones (keeps the simulation of 25-cell ranges cheap)
Cuts(n) == IF n <= 6 THEN 0..n ELSE {0, 1, n \div 2, n - 1, n}

--------------------------------------------------------------------------
(* the enumerator machine *)

Init == s = <<>>

AppendCell(x) == /\ Len(s) < MaxLen
                 /\ s' = Append(s, x)

Next == \E x \in Pool : AppendCell(x)
Spec == Init /\ [][Next]_vars

TypeOK == s \in Seq(Pool) /\ Len(s) <= MaxLen

--------------------------------------------------------------------------
(* laws *)

\* Inductive form: what one more cell does to the running results.
Acc(q) == [err |-> IF HasErr(q) THEN FirstErr(q) ELSE Blank,
           cnt |-> CountN(q, FALSE),
           sum |-> SumK(q, FALSE),
           mn  |-> IF CountN(q, FALSE) = 0 THEN 0 ELSE MinOf(KsOf(q, FALSE)),
           mx  |-> IF CountN(q, FALSE) = 0 THEN 0 ELSE MaxOf(KsOf(q, FALSE))]
Step(a, x) ==
  IF IsErr(x) THEN [a EXCEPT !.err = IF IsErr(a.err) THEN a.err ELSE x]
  ELSE IF IsNum(x)
  THEN [a EXCEPT !.cnt = @ + 1, !.sum = @ + x[2],
                 !.mn = IF a.cnt = 0 \/ x[2] < @ THEN x[2] ELSE @,
                 !.mx = IF a.cnt = 0 \/ x[2] > @ THEN x[2] ELSE @]
  ELSE a                                  \* text, logical, blank: ignored
FoldStep == [][Acc(s') = Step(Acc(s), s'[Len(s')])]_vars

\* Sum(s o <<x>>) = Sum(s) (+) x, on the results themselves
SumStep ==
  [][LET x == s'[Len(s')]
         cell == IF IsErr(x) THEN x ELSE IF IsNum(x) THEN OfK(x[2]) ELSE Zero
     IN  Same(The(Agg("SUM", s')), Plus(The(Agg("SUM", s)), cell))]_vars

\* Permuting the cells (adjacent transpositions generate every permutation)
\* changes nothing; with several different error values only *which* error
\* comes first may change.
PermInvariant ==
  LET base == [fn \in Fns |-> Agg(fn, s)]  one == OneErrKind(s)  errs == ErrSet(s)
  IN  \A i \in 1..(Len(s) - 1) :
         LET t == Swap(s, i)
         IN  \A fn \in Fns :
                IF one THEN Agg(fn, t) = base[fn]
                ELSE /\ FirstErr(t) \in Agg(fn, t)
                     /\ FirstErr(t) \in errs

\* Reshaping keeps the row-major sequence; transposing is a permutation.
ReshapeInvariant ==
  \A hw \in Shapes(Len(s)) :
     LET M == Matrix(s, hw[1], hw[2])  t == Transposed(s, hw[1], hw[2])
     IN  /\ Flatten(M, hw[1], hw[2]) = s
         /\ \A i \in 1..Len(s) :                     \* t really is the transpose
               t[i] = M[((i - 1) % hw[1]) + 1][((i - 1) \div hw[1]) + 1]
         /\ OneErrKind(s) => \A fn \in Fns : Agg(fn, t) = Agg(fn, s)

\* SUM (and COUNT) are additive over a split of the range into two blocks
SplitAdditive ==
  \A k \in Cuts(Len(s)) :
     LET a == SubSeq(s, 1, k)  b == SubSeq(s, k + 1, Len(s))
     IN  /\ Same(The(Agg("SUM", s)), Plus(The(Agg("SUM", a)), The(Agg("SUM", b))))
         /\ CountN(s, FALSE) = CountN(a, FALSE) + CountN(b, FALSE)
\* ... and over any partition into two blocks (short ranges, error-free)
PartitionAdditive ==
  (Len(s) <= PartMax /\ ~HasErr(s)) =>
     \A I \in SUBSET DOMAIN s :
        LET a == Pick(s, I, 1)  b == Pick(s, DOMAIN s \ I, 1)
        IN  /\ REq(VSum(s, FALSE), RAdd(VSum(a, FALSE), VSum(b, FALSE)))
            /\ CountN(s, FALSE) = CountN(a, FALSE) + CountN(b, FALSE)
            /\ (CountN(a, FALSE) > 0 /\ CountN(b, FALSE) > 0) =>
                 /\ VMin(s, FALSE) = RMin2(VMin(a, FALSE), VMin(b, FALSE))
                 /\ VMax(s, FALSE) = RMax2(VMax(a, FALSE), VMax(b, FALSE))

\* AVERAGE = SUM / COUNT, or #DIV/0! when nothing is numeric
AverageLaw ==
  ~HasErr(s) =>
     IF CountN(s, FALSE) = 0 THEN Agg("AVERAGE", s) = {DIV0}
     ELSE LET a == The(Agg("AVERAGE", s))
          IN  REq(R(a[2] * CountN(s, FALSE), a[3]), The(Agg("SUM", s)))

\* MIN/MAX: 0 when nothing is numeric, else an extreme numeric cell
MinMaxLaw ==
  ~HasErr(s) =>
     IF CountN(s, FALSE) = 0
     THEN Agg("MIN", s) = {Zero} /\ Agg("MAX", s) = {Zero}
          /\ REq(The(Agg("SUM", s)), Zero)
     ELSE LET mn == The(Agg("MIN", s))  mx == The(Agg("MAX", s))
          IN  /\ \E i \in NumIdx(s, FALSE) : mn = OfK(s[i][2])
              /\ \E i \in NumIdx(s, FALSE) : mx = OfK(s[i][2])
              /\ \A i \in NumIdx(s, FALSE) :
                    RLe(mn, OfK(s[i][2])) /\ RLe(OfK(s[i][2]), mx)
              /\ RLe(mn, The(Agg("AVERAGE", s)))
              /\ RLe(The(Agg("AVERAGE", s)), mx)

\* only numeric cells matter: blanking every text/logical cell changes nothing
IgnoresNonNumeric ==
  LET t == [i \in DOMAIN s |-> IF IsTxt(s[i]) \/ IsBool(s[i]) THEN Blank ELSE s[i]]
  IN  \A fn \in Fns : Agg(fn, t) = Agg(fn, s)

\* an error anywhere makes every function (COUNT: possibly) return an error,
\* and it is the first one
FirstErrorLaw ==
  HasErr(s) =>
     /\ \A fn \in Fns \ {"COUNT"} : Agg(fn, s) = {FirstErr(s)}
     /\ \E i \in ErrIdx(s) : s[i] = FirstErr(s) /\ \A j \in 1..(i - 1) : ~IsErr(s[j])

\* SUBTOTAL's table, and 10x = x on a sheet without hidden rows
SubtotalLaw ==
  \A n \in SubtotalNums :
     /\ Subtotal(n, s) = Agg(SubtotalName(n), s)
     /\ Subtotal(n + 100, s) = Subtotal(n, s)
  /\ SubtotalName(1) = "AVERAGE" /\ SubtotalName(2) = "COUNT"
  /\ SubtotalName(4) = "MAX" /\ SubtotalName(5) = "MIN" /\ SubtotalName(9) = "SUM"

\* SUMPRODUCT: symmetric; against a range of ones it is SUM; non-numbers
\* count as 0; additive over a split
Ones(q) == [i \in DOMAIN q |-> Num(Scale)]
Zeroed(q) == [i \in DOMAIN q |-> IF IsNum(q[i]) \/ IsErr(q[i]) THEN q[i] ELSE Num(0)]
SumProductLaw ==
  LET t == Rot(s)
  IN  /\ SumProduct(s, t) = SumProduct(t, s)
      /\ ~HasErr(s) =>
           /\ REq(The(SumProduct(s, Ones(s))), The(Agg("SUM", s)))
           /\ SumProduct(Zeroed(s), Zeroed(t)) = SumProduct(s, t)
           /\ The(SumProduct(s, s))[2] >= 0
           /\ \A k \in Cuts(Len(s)) :
                REq(The(SumProduct(s, t)),
                    RAdd(The(SumProduct(SubSeq(s, 1, k), SubSeq(t, 1, k))),
                         The(SumProduct(SubSeq(s, k + 1, Len(s)),
                                        SubSeq(t, k + 1, Len(s))))))
      /\ HasErr(s) => SumProduct(s, t) = ErrSet(s)

\* The pool counts numbers in a unit; what the unit is does not matter: every
\* function is homogeneous.  Measuring the numeric cells in a unit m times
\* as large multiplies SUM, AVERAGE, MIN and MAX by m (m > 0), leaves COUNT
\* alone and multiplies SUMPRODUCT by the product of the units of its two
\* ranges.  TLC checks it for the small units its 32-bit integers can hold;
\* the harness relies on it to drive the code with the same ranges measured
\* in large units (10^10, 2^31, ...: numbers of every magnitude a double holds).
Units == {1, 2, 3}
Scaled(q, m) == [i \in DOMAIN q |-> IF IsNum(q[i]) THEN Num(m * q[i][2]) ELSE q[i]]
RScale(x, m) == IF IsErr(x) THEN x ELSE R(m * x[2], x[3])
Homogeneous ==
  \A m \in Units :
     LET t == Scaled(s, m) IN
     /\ \A fn \in Fns \ {"COUNT"} : Agg(fn, t) = {RScale(x, m) : x \in Agg(fn, s)}
     /\ Agg("COUNT", t) = Agg("COUNT", s)
     /\ \A m2 \in Units :
           SumProduct(t, Scaled(Rot(s), m2))
             = {RScale(x, m * m2) : x \in SumProduct(s, Rot(s))}

\* Totals of subtotals.  A cell that holds a formula is, for a range it lies
\* in, a cell with the formula's result: a number (a numeric cell like any
\* other) or an error value.  Cut the range in two blocks a, b and put the
\* aggregates of the blocks in two cells; then over those two cells
\*   SUM of the SUMs is the SUM of the whole range (errors included: the
\*   first block's error comes first), SUM of the COUNTs is the COUNT, COUNT
\*   of the SUMs is 2, MAX of the MAXs / MIN of the MINs is the MAX / MIN
\*   when both blocks hold a number (else the 0 of the empty block takes
\*   part), and SUMPRODUCT(AVERAGEs, COUNTs) is the SUM.
\* By SumProductLaw a subtotal may as well be written SUMPRODUCT(block, ones).
AsCell(x)  == IF IsErr(x) THEN x ELSE Num((x[2] * Scale) \div x[3])
InUnits(x) == IsErr(x) \/ (x[2] * Scale) % x[3] = 0    \* AsCell(x) is exact
TwoLevel ==
  \A k \in Cuts(Len(s)) :
     LET a == SubSeq(s, 1, k)  b == SubSeq(s, k + 1, Len(s))
         sub(fn) == <<AsCell(The(Agg(fn, a))), AsCell(The(Agg(fn, b)))>>
     IN  /\ Same(The(Agg("SUM", sub("SUM"))), The(Agg("SUM", s)))
         /\ ~HasErr(s) =>
              /\ REq(The(Agg("SUM", sub("COUNT"))), The(Agg("COUNT", s)))
              /\ Agg("COUNT", sub("SUM")) = {R(2, 1)}
              /\ (CountN(a, FALSE) > 0 /\ CountN(b, FALSE) > 0) =>
                   /\ Agg("MAX", sub("MAX")) = Agg("MAX", s)
                   /\ Agg("MIN", sub("MIN")) = Agg("MIN", s)
                   /\ (InUnits(The(Agg("AVERAGE", a))) /\ InUnits(The(Agg("AVERAGE", b)))) =>
                        REq(The(SumProduct(sub("AVERAGE"), sub("COUNT"))),
                            The(Agg("SUM", s)))

--------------------------------------------------------------------------
(* test-vector export: one JSON line per visited state *)
Export ==
  Len(s) >= 1 =>
  PrintT(ToJson([cells   |-> s,
                 sum     |-> Agg("SUM", s),
                 average |-> Agg("AVERAGE", s),
                 min     |-> Agg("MIN", s),
                 max     |-> Agg("MAX", s),
                 count   |-> Agg("COUNT", s),
                 errs    |-> ErrSet(s),
                 sprot   |-> SumProduct(s, Rot(s)),
                 spself  |-> SumProduct(s, s)]))
=============================================================================
