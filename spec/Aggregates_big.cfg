CONSTANTS
  Pool <- BigPool
  MaxLen <- BigMaxLen
  PartMax <- BigPartMax
SPECIFICATION Spec
INVARIANT TypeOK
INVARIANT PermInvariant
INVARIANT ReshapeInvariant
INVARIANT SplitAdditive
INVARIANT PartitionAdditive
INVARIANT AverageLaw
INVARIANT MinMaxLaw
INVARIANT IgnoresNonNumeric
INVARIANT FirstErrorLaw
INVARIANT SubtotalLaw
INVARIANT SumProductLaw
INVARIANT Homogeneous
INVARIANT TwoLevel
INVARIANT Export
PROPERTY FoldStep
PROPERTY SumStep
