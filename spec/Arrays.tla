------------------------------- MODULE Arrays -------------------------------
(***************************************************************************)
(* C13 -- array (CSE) formulas: pointwise lifting and exact target shape.  *)
(*                                                                         *)
(* An array is a rectangle of elements, h rows by w columns (a sequence of *)
(* rows); a scalar is the 1 x 1 array.  Two things are defined here as the *)
(* property states them:                                                   *)
(*                                                                         *)
(*  Lift  -- what an operator or an array-aware function yields when its   *)
(*           operands are arrays: at every position the scalar application *)
(*           to the elements "at that position", where an operand that is  *)
(*           a scalar, a single row or a single column is read at its only *)
(*           element / row / column (broadcasting);                        *)
(*  Fit   -- what the cells of the target range of an array formula show:  *)
(*           exactly the target's shape; a larger result is trimmed, a     *)
(*           scalar / single row / single column is repeated, positions    *)
(*           the result does not cover are #N/A; a member cell shows the   *)
(*           element at its own position.                                  *)
(*                                                                         *)
(* Elements are symbolic: operand k of n holds (10i + j) * 100^(n-k) at    *)
(* (i, j), so for two operands A[i][j] = 1000i + 100j, B[i][j] = 10i + j   *)
(* and the lifted sum spells the pair of positions it was computed from.   *)
(* A second configuration (constant operator Special) puts errors and text *)
(* at chosen positions.                                                    *)
(*                                                                         *)
(* The lifted array need not be what the formula yields: it may be the     *)
(* argument of an aggregating function ({=SUM(A*B)}, {=SUM(IFERROR(A,0))}, *)
(* the usual way of entering an array formula into ONE cell).  The         *)
(* aggregate is a function of the elements of the lifted array, so the     *)
(* statement fixes it: every element is the scalar application at its      *)
(* position.  What the formula yields is then a scalar, and Fit repeats it *)
(* over the target (flag agg of the machine, action Wrap).                 *)
(*                                                                         *)
(* The machine is a sheet with one array formula: its state is the input   *)
(* (form of the formula, operand shapes, target shape) together with what  *)
(* the formula yields (res) and what the target's cells show (cells).  By  *)
(* growing one extent at a time it reaches every (operand shape, operand   *)
(* shape, target shape) triple up to Max x Max for a binary operator and   *)
(* every (argument kinds, array shape, target shape) for a function of up  *)
(* to MaxArgs arguments that are equally shaped arrays or scalars, each of  *)
(* them bare and inside an aggregating function; the target range is every *)
(* shape from ONE cell to Max x Max.  Every state is exported as a vector  *)
(* for the real code.                                                      *)
(***************************************************************************)
EXTENDS Naturals, Sequences, FiniteSets, TLC, Json

CONSTANTS Max,               \* largest extent of an operand or a target (4)
          MaxArgs,           \* largest arity of a lifted function (3)
          Special(_, _, _)   \* Special(k, i, j): the non-numeric element of
                             \* operand k at (i, j), or None

ASSUME MaxArgs \in 1..3 /\ Max \in 1..9       \* two decimal digits per operand

VARIABLES form,    \* "op": binary operator on A (shape sa) and B (shape sb)
                   \* "fn": function whose k-th argument is kinds[k]
          kinds,   \* "fn": sequence of "A" (array of shape sa) / "S" (scalar)
          sa, sb,  \* operand shapes <<h, w>>
          st,      \* shape of the target range of the array formula
          agg,     \* TRUE: the lifted array is the argument of an aggregating
                   \* function, the formula yields the aggregate (a scalar)
          res,     \* the lifted result (<<>>: shapes outside the statement)
          cells    \* what the cells of the target range show
vars == <<form, kinds, sa, sb, st, agg, res, cells>>

--------------------------------------------------------------------------
(* values: tagged tuples, tag first (TLC cannot compare 1 with "x")        *)

None   == <<"-">>
Num(n) == <<"N", n>>
NA     == <<"E", "#N/A">>
VALUE  == <<"E", "#VALUE!">>
IsNum(v) == v[1] = "N"
IsErr(v) == v[1] = "E"
IsTxt(v) == v[1] = "S"

Shapes  == (1..Max) \X (1..Max)
Scalar  == <<1, 1>>
ShapeOf(X) == <<Len(X), Len(X[1])>>

MaxOf(S) == CHOOSE x \in S : \A y \in S : y <= x
MinOf(S) == CHOOSE x \in S : \A y \in S : x <= y

--------------------------------------------------------------------------
(* Lift: broadcasting                                                      *)

\* two extents of one dimension fit together when they are equal or one of
\* them is 1 (that operand is then repeated along the dimension)
Compat(x, y) == x = y \/ x = 1 \/ y = 1

\* shs: sequence of operand shapes
Broadcastable(shs) ==
  \A p, q \in DOMAIN shs : /\ Compat(shs[p][1], shs[q][1])
                           /\ Compat(shs[p][2], shs[q][2])

\* the same thing in the words of the statement (two operands)
NamedCase(x, y) ==
  \/ x = y                                        \* equal shapes
  \/ x = Scalar \/ y = Scalar                     \* a scalar
  \/ (x[1] = 1 /\ x[2] = y[2])                    \* a single row against
  \/ (y[1] = 1 /\ y[2] = x[2])                    \*   an equally wide array
  \/ (x[2] = 1 /\ x[1] = y[1])                    \* a single column against
  \/ (y[2] = 1 /\ y[1] = x[1])                    \*   an equally tall array
  \/ (x[1] = 1 /\ y[2] = 1)                       \* a row against a column
  \/ (x[2] = 1 /\ y[1] = 1)

\* arguments of an array-aware function: equally shaped arrays and scalars
EqualOrScalar(shs) ==
  \A p, q \in DOMAIN shs : shs[p] = shs[q] \/ shs[p] = Scalar \/ shs[q] = Scalar

\* shape of the lifted result: the larger extent in each dimension
BShape(shs) == << MaxOf({shs[p][1] : p \in DOMAIN shs}),
                  MaxOf({shs[p][2] : p \in DOMAIN shs}) >>

\* the index at which an operand of the given extent is read for result
\* index n: its only one if it is single in this dimension, else n itself
Src(n, extent) == IF extent = 1 THEN 1 ELSE n

\* F takes the sequence of elements, one per operand
Lift(F(_), xs) ==
  LET shs == [p \in DOMAIN xs |-> ShapeOf(xs[p])]
      s   == BShape(shs)
  IN  [i \in 1..s[1] |-> [j \in 1..s[2] |->
         F([p \in DOMAIN xs |->
              xs[p][Src(i, shs[p][1])][Src(j, shs[p][2])]])]]

--------------------------------------------------------------------------
(* Fit: the cells of the target range                                      *)

\* one dimension: the result index shown at target index n (0: none).  A
\* result that is single in this dimension is repeated; otherwise the
\* first r indices are shown (the rest of a larger result is trimmed away)
\* and target indices beyond r are not covered.
FitIdx(n, r) == IF r = 1 THEN 1 ELSE IF n <= r THEN n ELSE 0

FitWith(R, t, fill) ==
  LET rh == Len(R)  rw == Len(R[1])
  IN  [i \in 1..t[1] |-> [j \in 1..t[2] |->
         IF FitIdx(i, rh) = 0 \/ FitIdx(j, rw) = 0 THEN fill
         ELSE R[FitIdx(i, rh)][FitIdx(j, rw)]]]

Fit(R, t) == FitWith(R, t, NA)

\* the member cell in row i, column j of the target shows its own element
Member(R, t, i, j) == Fit(R, t)[i][j]

\* ... whatever it is read through: a rectangle of h x w cells whose top left
\* cell is the member (i0, j0) shows the members' own elements
Window(R, t, i0, j0, h, w) ==
  [i \in 1..h |-> [j \in 1..w |-> Member(R, t, i0 + i - 1, j0 + j - 1)]]

--------------------------------------------------------------------------
(* the scalar application used on the model side: Excel's "+" extended to  *)
(* any number of operands.  The first error wins, text is #VALUE!.         *)

RECURSIVE SumFrom(_, _)
SumFrom(es, p) == IF p > Len(es) THEN 0 ELSE es[p][2] + SumFrom(es, p + 1)

SumV(es) ==
  IF \E p \in DOMAIN es : IsErr(es[p])
  THEN es[MinOf({p \in DOMAIN es : IsErr(es[p])})]
  ELSE IF \E p \in DOMAIN es : IsTxt(es[p]) THEN VALUE
  ELSE Num(SumFrom(es, 1))

Ident(es) == es

\* the elements of an array in reading order (row by row)
Flat(R) ==
  LET w == Len(R[1])
  IN  [n \in 1..(Len(R) * w) |-> R[((n - 1) \div w) + 1][((n - 1) % w) + 1]]

\* the aggregating function used on the model side: Excel's SUM over an
\* array -- the first error in reading order wins, else the sum of the numbers
\* (a lifted "+" never leaves text: text makes #VALUE! at its position)
AggV(R) == SumV(Flat(R))

--------------------------------------------------------------------------
(* the operands of a formula, as a function of the input                   *)

\* shapes of the operands: A and B for an operator; for a function every
\* array argument has the one shape a, every other argument is a scalar
ShapesOf(f, ks, a, b) ==
  IF f = "op" THEN <<a, b>>
  ELSE [k \in 1..Len(ks) |-> IF ks[k] = "A" THEN a ELSE Scalar]

Pow100(e) == CASE e = 0 -> 1 [] e = 1 -> 100 [] e = 2 -> 10000

\* element (i, j) of operand k of n
ElemOf(n, k, i, j) ==
  IF Special(k, i, j)[1] = "-" THEN Num((10 * i + j) * Pow100(n - k))
  ELSE Special(k, i, j)

ArgsOf(shs) ==
  [k \in DOMAIN shs |->
     [i \in 1..shs[k][1] |-> [j \in 1..shs[k][2] |-> ElemOf(Len(shs), k, i, j)]]]

\* the same rectangles holding their own positions instead of values
PosArgsOf(shs) ==
  [k \in DOMAIN shs |-> [i \in 1..shs[k][1] |-> [j \in 1..shs[k][2] |-> <<i, j>>]]]

\* what the formula yields and what the target shows; <<>> marks operand
\* shapes that do not broadcast (outside the statement: nothing is claimed)
\* (g: inside an aggregating function, the formula yields the 1 x 1 aggregate)
ResultOf(shs, g) ==
  IF ~Broadcastable(shs) THEN <<>>
  ELSE LET L == Lift(SumV, ArgsOf(shs)) IN IF g THEN << <<AggV(L)>> >> ELSE L
CellsOf(R, t)   == IF Len(R) = 0 THEN <<>> ELSE Fit(R, t)

\* ... of the current state
ArgShapes == ShapesOf(form, kinds, sa, sb)
NArgs     == Len(ArgShapes)
Args      == ArgsOf(ArgShapes)
Defined   == Broadcastable(ArgShapes)
LShape    == BShape(ArgShapes)                  \* of the lifted array
RShape    == IF agg THEN Scalar ELSE LShape     \* of what the formula yields

--------------------------------------------------------------------------
(* the machine                                                             *)

KindVectors == UNION {[1..n -> {"A", "S"}] : n \in 1..MaxArgs}
HasArray    == form = "op" \/ \E p \in DOMAIN kinds : kinds[p] = "A"

Init == /\ form \in {"op", "fn"}
        /\ kinds \in (IF form = "op" THEN {<<>>} ELSE KindVectors)
        /\ sa = Scalar /\ sb = Scalar /\ st = Scalar /\ agg = FALSE
        /\ res = ResultOf(ShapesOf(form, kinds, sa, sb), agg)
        /\ cells = CellsOf(res, st)

Grow(s, d) == IF d = 1 THEN <<s[1] + 1, s[2]>> ELSE <<s[1], s[2] + 1>>

\* the formula is recalculated whenever an operand or the target changes
Recalc == /\ res' = ResultOf(ShapesOf(form', kinds', sa', sb'), agg')
          /\ cells' = CellsOf(res', st')

GrowA(d) == /\ HasArray /\ sa[d] < Max
            /\ sa' = Grow(sa, d) /\ UNCHANGED <<form, kinds, sb, st, agg>>
            /\ Recalc
GrowB(d) == /\ form = "op" /\ sb[d] < Max
            /\ sb' = Grow(sb, d) /\ UNCHANGED <<form, kinds, sa, st, agg>>
            /\ Recalc
GrowT(d) == /\ st[d] < Max
            /\ st' = Grow(st, d) /\ UNCHANGED <<form, kinds, sa, sb, agg>>
            /\ Recalc
\* the formula is edited: what it yielded becomes the argument of SUM( )
Wrap == /\ ~agg /\ agg' = TRUE
        /\ UNCHANGED <<form, kinds, sa, sb, st>>
        /\ Recalc

TallerA == GrowA(1)
WiderA  == GrowA(2)
TallerB == GrowB(1)
WiderB  == GrowB(2)
TallerT == GrowT(1)
WiderT  == GrowT(2)

Next == TallerA \/ WiderA \/ TallerB \/ WiderB \/ TallerT \/ WiderT \/ Wrap
Spec == Init /\ [][Next]_vars

--------------------------------------------------------------------------
(* laws                                                                    *)

TypeOK == /\ form \in {"op", "fn"}
          /\ kinds \in (IF form = "op" THEN {<<>>} ELSE KindVectors)
          /\ sa \in Shapes /\ sb \in Shapes /\ st \in Shapes
          /\ agg \in BOOLEAN
          /\ (form = "fn" => sb = Scalar)
          /\ (~HasArray => sa = Scalar)

\* res and cells are the definitions applied to the input, in every state
Recalculated == /\ res = ResultOf(ArgShapes, agg)
                /\ cells = CellsOf(res, st)
                /\ (Defined <=> Len(res) > 0)

\* the per-dimension rule is the list of cases the statement names
BroadcastCases == form = "op" => (Defined <=> NamedCase(sa, sb))

\* every function state has equally shaped arrays and scalars, and that is
\* always broadcastable with the arrays' shape as the result shape
FnEqualOrScalar ==
  form = "fn" => /\ EqualOrScalar(ArgShapes)
                 /\ Defined
                 /\ LShape = (IF HasArray THEN sa ELSE Scalar)

\* the lifted result has the broadcast shape, the fitted one the target's
ShapeExact ==
  Defined =>
    /\ DOMAIN res = 1..RShape[1]
    /\ \A i \in 1..RShape[1] : DOMAIN res[i] = 1..RShape[2]
    /\ DOMAIN cells = 1..st[1]
    /\ \A i \in 1..st[1] : DOMAIN cells[i] = 1..st[2]
    /\ ShapeOf(cells) = st

\* the element of operand X "at position (i, j)", case by case as the
\* statement words it
At(X, i, j) ==
  CASE ShapeOf(X) = Scalar -> X[1][1]
    [] Len(X) = 1 /\ Len(X[1]) > 1 -> X[1][j]        \* single row
    [] Len(X) > 1 /\ Len(X[1]) = 1 -> X[i][1]        \* single column
    [] OTHER -> X[i][j]

ElemsAt(xs, i, j) == [k \in DOMAIN xs |-> At(xs[k], i, j)]

Pointwise ==
  (Defined /\ ~agg) =>
    LET xs == Args
    IN  \A i \in 1..RShape[1], j \in 1..RShape[2] :
          res[i][j] = SumV(ElemsAt(xs, i, j))

\* with numeric elements the sum spells the positions it was made from:
\* operand k contributed its element (i, j), or its single row / column
Digits(v, k) == (v \div Pow100(NArgs - k)) % 100
PointwiseDecode ==
  (Defined /\ ~agg) =>
    \A i \in 1..RShape[1], j \in 1..RShape[2] :
       IsNum(res[i][j]) =>
         \A k \in 1..NArgs :
            LET ik == Digits(res[i][j][2], k) \div 10
                jk == Digits(res[i][j][2], k) % 10
            IN  /\ ik \in {i, 1} /\ (ik # i => ArgShapes[k][1] = 1)
                /\ jk \in {j, 1} /\ (jk # j => ArgShapes[k][2] = 1)

\* a position is an error / #VALUE! exactly when the elements there say so
PointwiseSpecial ==
  (Defined /\ ~agg) =>
    LET xs == Args
    IN  \A i \in 1..RShape[1], j \in 1..RShape[2] :
          LET es == ElemsAt(xs, i, j)
          IN  /\ IsNum(res[i][j]) <=> \A k \in 1..NArgs : IsNum(es[k])
              /\ (\E k \in 1..NArgs : IsErr(es[k])) =>
                    \E k \in 1..NArgs : /\ res[i][j] = es[k]
                                        /\ \A l \in 1..(k - 1) : ~IsErr(es[l])

\* inside an aggregating function: the formula yields ONE value, made of the
\* scalar applications at all the positions of the lifted array -- their sum
\* when they are numbers, else the error of the first position (in reading
\* order) whose scalar application is an error
RECURSIVE SumOver(_, _)
SumOver(S, val) ==
  IF S = {} THEN 0
  ELSE LET p == CHOOSE q \in S : TRUE IN val[p][2] + SumOver(S \ {p}, val)
Before(q, p) == q[1] < p[1] \/ (q[1] = p[1] /\ q[2] < p[2])

Aggregated ==
  (Defined /\ agg) =>
    LET xs     == Args
        P      == (1..LShape[1]) \X (1..LShape[2])
        val    == [p \in P |-> SumV(ElemsAt(xs, p[1], p[2]))]
    IN  /\ ShapeOf(res) = Scalar
        /\ IF \E p \in P : IsErr(val[p])
           THEN \E p \in P : /\ IsErr(val[p]) /\ res[1][1] = val[p]
                              /\ \A q \in P : Before(q, p) => ~IsErr(val[q])
           ELSE res[1][1] = Num(SumOver(P, val))
        \* and every cell of the target shows it, whatever the target's shape
        /\ \A i \in 1..st[1], j \in 1..st[2] : cells[i][j] = res[1][1]

\* putting the formula inside SUM( ) aggregates exactly what it yielded
WrapAggregates ==
  [][ (Defined /\ ~agg /\ agg') => res' = << <<AggV(res)>> >> ]_vars

\* the clauses of the statement, one by one
NotCovered(rs, i, j) == (rs[1] > 1 /\ i > rs[1]) \/ (rs[2] > 1 /\ j > rs[2])

Trimmed ==      \* where result and target overlap the cell shows the result
  Defined => \A i \in 1..st[1], j \in 1..st[2] :
     (i <= RShape[1] /\ j <= RShape[2]) => cells[i][j] = res[i][j]
Repeated ==     \* a single row fills every row, a single column every column
  Defined =>
    /\ RShape[1] = 1 => \A i \in 1..st[1] : cells[i] = cells[1]
    /\ RShape[2] = 1 => \A i \in 1..st[1], j \in 1..st[2] : cells[i][j] = cells[i][1]
    /\ RShape = Scalar => \A i \in 1..st[1], j \in 1..st[2] : cells[i][j] = res[1][1]
Uncovered ==    \* beyond a result that is not repeated: #N/A
  Defined => \A i \in 1..st[1], j \in 1..st[2] :
     NotCovered(RShape, i, j) => cells[i][j] = NA
OnlyUncoveredNA ==  \* and #N/A nowhere else (no element is #N/A itself)
  Defined => \A i \in 1..st[1], j \in 1..st[2] :
     cells[i][j] = NA => NotCovered(RShape, i, j)

\* a member cell shows one element, the one at its own position
MemberOwn ==
  Defined => \A i \in 1..st[1], j \in 1..st[2] :
     /\ Member(res, st, i, j) = cells[i][j]
     /\ cells[i][j][1] \in {"N", "S", "E"}

\* reading the whole target is reading every member; reading a rectangle
\* that starts at the target's top left cell is the same as entering the
\* formula over that smaller target (the code evaluates it that way)
Windows ==
  Defined =>
    /\ Window(res, st, 1, 1, st[1], st[2]) = cells
    /\ \A h \in 1..st[1], w \in 1..st[2] :
          Window(res, st, 1, 1, h, w) = Fit(res, <<h, w>>)

\* what is shown already has the target's shape: fitting it again is a no-op
FitIdempotent == Defined => Fit(cells, st) = cells

\* widening / heightening the target never changes what a member showed
TargetGrowthStable ==
  [][ (Defined /\ sa' = sa /\ sb' = sb /\ agg' = agg) =>
        \A i \in 1..st[1], j \in 1..st[2] : cells'[i][j] = cells[i][j] ]_vars

\* growing an operand along a dimension in which it was not repeated leaves
\* the result at the old positions alone
OperandGrowthLocal ==
  [][ (Defined /\ Defined' /\ st' = st /\ ~agg /\ ~agg' /\
         \A d \in 1..2 : /\ (sa'[d] # sa[d] => sa[d] > 1)
                         /\ (sb'[d] # sb[d] => sb[d] > 1)) =>
        \A i \in 1..RShape[1], j \in 1..RShape[2] : res'[i][j] = res[i][j] ]_vars

--------------------------------------------------------------------------
(* test-vector export (an "invariant" that is always TRUE and prints)      *)
(* res: the lifted symbolic "+"; sum: what the target cells show for it;   *)
(* src: per target cell the operand positions it is computed from (<<>>    *)
(* for an uncovered cell), so that the harness can instantiate any other   *)
(* operator or function and any other element values.  Inside an           *)
(* aggregating function a cell is computed from the whole lifted array:    *)
(* src holds the mark <<"agg">> there and inner the operand positions of   *)
(* every element of the lifted array.                                      *)

Export ==
  PrintT(ToJson([form    |-> form,
                 kinds   |-> kinds,
                 sa      |-> sa,
                 sb      |-> sb,
                 st      |-> st,
                 agg     |-> agg,
                 defined |-> Defined,
                 shapes  |-> ArgShapes,
                 elems   |-> Args,
                 rshape  |-> IF Defined THEN RShape ELSE <<0, 0>>,
                 src     |-> IF ~Defined THEN <<>>
                             ELSE IF agg THEN FitWith(<< << <<"agg">> >> >>, st, <<>>)
                             ELSE FitWith(Lift(Ident, PosArgsOf(ArgShapes)), st, <<>>),
                 inner   |-> IF Defined /\ agg
                             THEN Lift(Ident, PosArgsOf(ArgShapes)) ELSE <<>>,
                 res     |-> res,
                 sum     |-> cells]))
=============================================================================
