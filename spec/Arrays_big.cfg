CONSTANTS
  Max = 4
  MaxArgs = 3
  Special <- MCSpecial
SPECIFICATION Spec
INVARIANT TypeOK
INVARIANT Recalculated
INVARIANT BroadcastCases
INVARIANT FnEqualOrScalar
INVARIANT ShapeExact
INVARIANT Pointwise
INVARIANT PointwiseDecode
INVARIANT PointwiseSpecial
INVARIANT Aggregated
INVARIANT Trimmed
INVARIANT Repeated
INVARIANT Uncovered
INVARIANT OnlyUncoveredNA
INVARIANT MemberOwn
INVARIANT Windows
INVARIANT FitIdempotent
INVARIANT Export
PROPERTY TargetGrowthStable
PROPERTY OperandGrowthLocal
PROPERTY WrapAggregates
