------------------------------ MODULE Calendar ------------------------------
(***************************************************************************)
(* C17 -- Excel's 1900 date system.                                        *)
(*                                                                         *)
(* A date is a serial day number n in 0 .. 2958465.  Serial 1 is           *)
(* 1900-01-01, serial 0 is shown by Excel as "1900-01-00", serial 60 is    *)
(* the day 1900-02-29 that never existed (Excel inherited the Lotus 1-2-3  *)
(* belief that 1900 was a leap year), and from serial 61 = 1900-03-01 on   *)
(* the parts (y, m, d) are those of the proleptic Gregorian date           *)
(* 1899-12-30 + n.  The last serial is 2958465 = 9999-12-31.               *)
(*                                                                         *)
(* The module contains                                                     *)
(*   * the calendar itself as a day-successor machine (mode "cal"):        *)
(*     state (n, y, m, d, wd), action NextDay;                             *)
(*   * independent closed forms DateSerial (parts -> serial), Parts        *)
(*     (serial -> parts) and Zeller's weekday, which TLC compares with     *)
(*     the machine at every one of its 2 958 466 states;                   *)
(*   * definitions of the worksheet functions YEAR MONTH DAY WEEKDAY DATE  *)
(*     EOMONTH EDATE HOUR MINUTE SECOND YEARFRAC as *relations*: each      *)
(*     yields the set of allowed results (tagged values <<"N", k>>,        *)
(*     <<"E", "#NUM!">>, or <<"ANY">> = "any value, but no exception"      *)
(*     where the property statement does not settle the answer);           *)
(*   * four further enumerator machines that walk the argument domains of  *)
(*     DATE ("date"), EOMONTH/EDATE ("shift"), HOUR/MINUTE/SECOND          *)
(*     ("time") and YEARFRAC ("yf") and whose laws TLC checks;             *)
(*   * a machine ("frac") that walks arguments with a fraction -- a        *)
(*     date-time day + fraction of the day as start of EOMONTH/EDATE,      *)
(*     quarters of months, days and years as arguments of DATE, EOMONTH,   *)
(*     EDATE -- of which the functions use the whole part;                 *)
(*   * a machine ("far") that walks one argument of DATE, EOMONTH, EDATE   *)
(*     away from zero decade by decade (+-1, +-10, ... +-10^20, times a    *)
(*     small mantissa) while the others are pinned: carrying is not        *)
(*     confined to a few months or days, and whatever leaves the calendar  *)
(*     is #NUM!, however far it leaves it;                                 *)
(*   * Export, an always-true "invariant" that prints one JSON test        *)
(*     vector per state (per month start for the calendar machine).        *)
(*                                                                         *)
(* All machines live in one module and share the variables; `mode` (fixed  *)
(* by Init) says which machine a behaviour belongs to, the variables of    *)
(* the other machines stay at 0.  Calendar_big.cfg (thorough tier) makes   *)
(* every serial day a state of one single run from 1900-01-00;             *)
(* Calendar_mc.cfg (quick tier) walks single days through 1901 and whole   *)
(* months afterwards, and starts the search in every century.              *)
(***************************************************************************)
EXTENDS Integers, Sequences, FiniteSets, TLC, Json

CONSTANTS
  Modes,        \* machines to run: subset of
                \* {"cal", "date", "shift", "time", "yf", "frac", "far"}
  LastSerial,   \* where the calendar machine stops (2958465 for the real claim)
  DayStepsUntil,\* the calendar machine advances day by day below this serial and
                \* by whole months from the next month start on (thorough tier:
                \* beyond LastSerial, i.e. every single day is a state)
  CalSeeds,     \* serials at which the calendar machine starts: {0} for the
                \* real claim.  More seeds only make TLC's search wide instead
                \* of deep: the run from one seed walks into the next seed's
                \* initial state, which must then be the *same* state (the number
                \* of distinct states stays what it is with the single seed 0)
  SplitChains,  \* BOOLEAN: likewise start the argument machines at every hour /
                \* every month argument / every 100th month shift
  DateYears,    \* year arguments of DATE that are walked
  ArgLo, ArgHi, \* month and day arguments of DATE range over ArgLo..ArgHi
  ShiftStarts,  \* start serials of EOMONTH/EDATE
  ShiftLo, ShiftHi,   \* month shifts walked for every start
  TimeDeltas,   \* sub-second perturbations, in milliseconds, |delta| < 500
  YfDays,       \* serials from which YEARFRAC pairs are formed
  FracDen,      \* arguments with a fraction are numerators over FracDen (4: quarters)
  FracYears,    \* year arguments of DATE (numerators, non-negative)
  FracMonthPins, FracDayPins,   \* month / day numerators held while the other
                \* argument walks over FracDen * ArgLo .. FracDen * ArgHi
  FracStarts,   \* start days of EOMONTH/EDATE, taken at every fraction of the day
  FracShiftLo, FracShiftHi,     \* month shifts (whole numbers) between which the
                \* months argument walks in steps of 1 / FracDen
  FarMants,     \* far arguments are +-mantissa * 10^exponent, mantissa from this set,
  FarMaxExp,    \* exponent 0 .. FarMaxExp
  FarYears,     \* year arguments of DATE held while the month or the day goes far
  FarPins,      \* month / day arguments of DATE and months arguments of
                \* EOMONTH/EDATE held while another argument goes far
  FarStarts     \* start days of EOMONTH/EDATE held while the months go far

VARIABLES
  mode,
  n, y, m, d, wd,        \* cal:   serial, its year / month / day, weekday 1=Sunday..7
  ay, am, ad,            \* date:  the three arguments of DATE
  sn, sk,                \* shift: start serial and number of months
  ts, th, tm, tsec,      \* time:  second of the day and its clock reading
  fa, fb, fbasis, fswap, \* yf:    the two dates, the basis, "arguments swapped"
  fkind, fwalk, f1, f2, f3,  \* frac: "DATE": year, month, day numerators;
                         \*       "SHIFT": start day, months numerator, numerator of
                         \*       the fraction of the start day;  fwalk: "m" / "d" =
                         \*       the numerator that walks is f2 / f3
  rk, ra, rb,            \* far:   which argument goes far -- "year" / "month" / "day":
                         \*       DATE(V, ra, rb) / DATE(ra, V, rb) / DATE(ra, rb, V);
                         \*       "shift" / "start": EOMONTH and EDATE (ra, V) / (V, ra)
  rsg, rmt, rex          \*       V = rsg * rmt * 10^rex  (sign, mantissa, exponent)

calVars   == <<n, y, m, d, wd>>
dateVars  == <<ay, am, ad>>
shiftVars == <<sn, sk>>
timeVars  == <<ts, th, tm, tsec>>
yfVars    == <<fa, fb, fbasis, fswap>>
fracVars  == <<fkind, fwalk, f1, f2, f3>>
farVars   == <<rk, ra, rb, rsg, rmt, rex>>
vars      == <<mode, calVars, dateVars, shiftVars, timeVars, yfVars, fracVars, farVars>>

MaxSerial == 2958465        \* 9999-12-31, Excel's last date

Min(a, b) == IF a < b THEN a ELSE b

\* tagged result values (DESIGN 2.2)
Num(k) == <<"N", k>>
NumErr == <<"E", "#NUM!">>
Anything == <<"ANY">>        \* statement silent: any value, but never an exception

--------------------------------------------------------------------------
(* Month lengths.  Excel's leap rule is the Gregorian one plus 1900.       *)

IsLeapG(yy) == (yy % 4 = 0 /\ yy % 100 # 0) \/ yy % 400 = 0
IsLeapX(yy) == IsLeapG(yy) \/ yy = 1900

MonthLen(yy, mm) ==
  IF mm = 2 THEN (IF IsLeapX(yy) THEN 29 ELSE 28)
  ELSE IF mm \in {4, 6, 9, 11} THEN 30 ELSE 31

MonthLenG(yy, mm) ==        \* the real (Gregorian) length
  IF mm = 2 THEN (IF IsLeapG(yy) THEN 29 ELSE 28) ELSE MonthLen(yy, mm)

--------------------------------------------------------------------------
(* Closed form  parts -> serial,  independent of the successor machine:    *)
(* count the Gregorian days before the year and before the month, shift    *)
(* to Excel's epoch (serial 0 = the day before 1900-01-01) and add the one *)
(* fictitious day for every date after February 1900.  Also defined for    *)
(* years before 1900 (non-positive serials), which DATE's carrying needs.  *)

DaysBeforeYear(yy) ==
  365 * (yy - 1) + (yy - 1) \div 4 - (yy - 1) \div 100 + (yy - 1) \div 400

CumDays == <<0, 31, 59, 90, 120, 151, 181, 212, 243, 273, 304, 334>>

GregOrdinal(yy, mm, dd) ==           \* 1 = 0001-01-01 (proleptic)
  DaysBeforeYear(yy) + CumDays[mm]
    + (IF mm > 2 /\ IsLeapG(yy) THEN 1 ELSE 0) + dd

Epoch == GregOrdinal(1899, 12, 31)
Ordinal18991230 == GregOrdinal(1899, 12, 30)

DateSerial(yy, mm, dd) ==
  GregOrdinal(yy, mm, dd) - Epoch
    + (IF yy > 1900 \/ (yy = 1900 /\ mm > 2) THEN 1 ELSE 0)

(* Closed form  serial -> parts  (days-to-civil by 400-year eras counted   *)
(* from 0000-03-01), with the two fictitious days set by hand.             *)
Parts(s) ==
  IF s = 0 THEN <<1900, 1, 0>>
  ELSE IF s = 60 THEN <<1900, 2, 29>>
  ELSE
    LET g   == IF s < 60 THEN s ELSE s - 1     \* 1 = 1900-01-01, Gregorian count
        z   == g + 693900                      \* days since 0000-03-01
        era == z \div 146097
        doe == z % 146097
        yoe == (doe - doe \div 1460 + doe \div 36524 - doe \div 146096) \div 365
        doy == doe - (365 * yoe + yoe \div 4 - yoe \div 100)
        mp  == (5 * doy + 2) \div 153
        dd  == doy - (153 * mp + 2) \div 5 + 1
        mm  == IF mp < 10 THEN mp + 3 ELSE mp - 9
        yy  == yoe + era * 400 + (IF mm <= 2 THEN 1 ELSE 0)
    IN  <<yy, mm, dd>>

(* Zeller's congruence for a Gregorian date, in Excel's numbering of       *)
(* WEEKDAY (1 = Sunday .. 7 = Saturday).                                   *)
Zeller(yy, mm, dd) ==
  LET zm == IF mm < 3 THEN mm + 12 ELSE mm
      zy == IF mm < 3 THEN yy - 1 ELSE yy
      kk == zy % 100
      jj == zy \div 100
      hh == (dd + (13 * (zm + 1)) \div 5 + kk + kk \div 4 + jj \div 4 + 5 * jj) % 7
  IN  IF hh = 0 THEN 7 ELSE hh          \* Zeller: 0 = Saturday, 1 = Sunday

--------------------------------------------------------------------------
(* YEAR / MONTH / DAY / WEEKDAY of a serial number.  A negative serial is  *)
(* #NUM!; beyond 9999-12-31 the statement only asks that nothing raises.   *)

PartFn(s, i) ==
  IF s < 0 THEN {NumErr}
  ELSE IF s > MaxSerial THEN {Anything}
  ELSE {Num(Parts(s)[i])}

YearFn(s)  == PartFn(s, 1)
MonthFn(s) == PartFn(s, 2)
DayFn(s)   == PartFn(s, 3)

\* period 7, anchored at serial 1 = Sunday (a true Sunday for every n > 60)
WeekdayOf(s) == ((s + 6) % 7) + 1
WeekdayFn(s) ==
  IF s < 0 THEN {NumErr}
  ELSE IF s > MaxSerial THEN {Anything}
  ELSE {Num(WeekdayOf(s))}

--------------------------------------------------------------------------
(* DATE(year, month, day).  Years 0..1899 mean 1900+year, other years      *)
(* outside 0..9999 are #NUM!.  Out-of-range months carry into the year,    *)
(* out-of-range days carry into the months (forwards and backwards) --     *)
(* written twice: as the recursive carrying the statement describes, and   *)
(* as serial arithmetic from the first of the month; TLC checks that the   *)
(* two agree on the whole grid (CarryAgrees).                              *)

RECURSIVE CarryMonth(_, _)
CarryMonth(yy, mm) ==
  IF mm > 12 THEN CarryMonth(yy + 1, mm - 12)
  ELSE IF mm < 1 THEN CarryMonth(yy - 1, mm + 12)
  ELSE <<yy, mm>>

RECURSIVE CarryDay(_, _, _)
CarryDay(yy, mm, dd) ==            \* mm in 1..12
  IF dd > MonthLen(yy, mm)
  THEN LET nx == CarryMonth(yy, mm + 1)
       IN  CarryDay(nx[1], nx[2], dd - MonthLen(yy, mm))
  ELSE IF dd < 1
  THEN LET pv == CarryMonth(yy, mm - 1)
       IN  CarryDay(pv[1], pv[2], dd + MonthLen(pv[1], pv[2]))
  ELSE <<yy, mm, dd>>

EffYear(yr) == IF yr < 1900 THEN yr + 1900 ELSE yr

Carried(yr, mo, dy) ==             \* the normalised (y, m, d), yr in 0..9999
  LET ym == CarryMonth(EffYear(yr), mo) IN CarryDay(ym[1], ym[2], dy)

RawSerial(yr, mo, dy) ==           \* first of the carried month + day - 1
  LET k == EffYear(yr) * 12 + (mo - 1)
  IN  DateSerial(k \div 12, (k % 12) + 1, 1) + dy - 1

DateFn(yr, mo, dy) ==
  IF yr < 0 \/ yr > 9999 THEN {NumErr}
  ELSE LET k == EffYear(yr) * 12 + (mo - 1)      \* month index of the carried month
           s == RawSerial(yr, mo, dy)
       IN  IF s < 0 \/ s > MaxSerial THEN {NumErr}
           \* the month argument carried to before January 1900 and the day
           \* argument carried back into range: not settled by the statement
           ELSE IF k < 1900 * 12 THEN {Anything}
           \* (a month carried beyond December 9999 and a day carried back
           \* into the calendar: the result is in range, so it is that day --
           \* "out-of-range *results* are #NUM!"; DATE(9999, 13, 0) is the
           \* last day of December 9999 as DATE(y, m + 1, 0) is the last day
           \* of month m everywhere else; see CarrySpelling)
           ELSE {Num(s)}

--------------------------------------------------------------------------
(* EOMONTH(start, k) = the last day of the month k months after start's    *)
(* month.  EDATE(start, k) = the same day of the month k months away; a    *)
(* day that month does not have becomes its last day (31 Jan + 1 month =   *)
(* 28/29 Feb), so that the result is a shift by whole months.  Results     *)
(* before 1900-01 or after 9999-12 are #NUM!, so are negative starts.      *)

MonthIndex(yy, mm) == yy * 12 + (mm - 1)

EoMonthFn(s, k) ==
  IF s < 0 THEN {NumErr}
  ELSE IF s > MaxSerial THEN {Anything}
  ELSE LET p  == Parts(s)
           t  == MonthIndex(p[1], p[2]) + k
           ty == t \div 12
           tm2 == (t % 12) + 1
       IN  IF ty < 1900 \/ ty > 9999 THEN {NumErr}
           ELSE {Num(DateSerial(ty, tm2, MonthLen(ty, tm2)))}

EDateFn(s, k) ==
  IF s < 0 THEN {NumErr}
  ELSE IF s > MaxSerial THEN {Anything}
  ELSE LET p  == Parts(s)
           t  == MonthIndex(p[1], p[2]) + k
           ty == t \div 12
           tm2 == (t % 12) + 1
       IN  IF ty < 1900 \/ ty > 9999 THEN {NumErr}
           ELSE IF s = 0 THEN {Anything}       \* "day 0" of a month: not settled
           ELSE {Num(DateSerial(ty, tm2, Min(p[3], MonthLen(ty, tm2))))}

--------------------------------------------------------------------------
(* Arguments with a fraction.  A cell holds a date-time as day + fraction  *)
(* of the day, and nothing keeps a month, day or year argument whole.      *)
(* Excel uses the whole part: the date functions work on the day of a      *)
(* date-time, "if months is not an integer, it is truncated" (EDATE,       *)
(* EOMONTH), and DATE does the same with its three arguments.  An argument *)
(* is kept as a numerator over FracDen.  For a negative argument           *)
(* truncation (toward zero, what Excel documents) and floor differ; the    *)
(* property statement does not say which: both are allowed.                *)

TruncOf(num) == IF num >= 0 THEN num \div FracDen ELSE -((-num) \div FracDen)
IsWhole(num) == (IF num >= 0 THEN num ELSE -num) % FracDen = 0
Whole(num) ==                  \* the whole numbers num / FracDen may be taken as
  IF num >= 0 \/ IsWhole(num) THEN {TruncOf(num)}
  ELSE {TruncOf(num), TruncOf(num) - 1}

DateFracFn(yn, mn, dn) ==
  UNION {DateFn(yy, mm, dd) : yy \in Whole(yn), mm \in Whole(mn), dd \in Whole(dn)}

\* a date-time: day s >= 0 and q / FracDen of that day, as one numerator
Moment(s, q) == s * FracDen + q
DayOfMoment(mt) == mt \div FracDen

EoMonthFracFn(mt, kn) == UNION {EoMonthFn(DayOfMoment(mt), kk) : kk \in Whole(kn)}
EDateFracFn(mt, kn)   == UNION {EDateFn(DayOfMoment(mt), kk) : kk \in Whole(kn)}

--------------------------------------------------------------------------
(* Far arguments.  Nothing confines a month or day argument to a few       *)
(* years: DATE(2000, 1, 31000) is a day of 2084, DATE(2000, 1, -40000) and *)
(* EDATE(1, 1E+20) are #NUM!.  A far argument is V = sg * mt * 10^ex.  TLC *)
(* has 32-bit integers: up to 10^FarExactExp the definitions above are     *)
(* evaluated on V itself.  Beyond that (|V| >= 10^7) nothing is left to    *)
(* compute: the calendar has fewer than 3 * 10^6 days and 10^5 months, the *)
(* other arguments are pinned within a few years, and DATE is linear in    *)
(* its day argument and monotone in its month argument (FarLinear), so a   *)
(* result that has left the calendar (FarBeyond) only moves further away.  *)

FarExactExp == 6
FarValue(sg, mt, ex) == sg * mt * 10 ^ ex          \* ex <= FarExactExp only

\* from this magnitude on the result has left the calendar whatever the
\* pinned arguments are (a year beyond 9999; months: 8100 years have 97 200;
\* days: the calendar has 2 958 466, the pinned month is within -40..60)
FarThreshold(kind) == CASE kind = "year"  -> 10000
                        [] kind = "day"   -> 3000000
                        [] OTHER          -> 100000

FarDateFn(kind, a, b, sg, mt, ex) ==
  IF ex > FarExactExp THEN {NumErr}
  ELSE LET v == FarValue(sg, mt, ex)
       IN  CASE kind = "year"  -> DateFn(v, a, b)
             [] kind = "month" -> DateFn(a, v, b)
             [] kind = "day"   -> DateFn(a, b, v)

\* fn: "EOMONTH" / "EDATE"
ShiftOf(fn, s, k) == IF fn = "EOMONTH" THEN EoMonthFn(s, k) ELSE EDateFn(s, k)
FarShiftFn(fn, kind, a, sg, mt, ex) ==
  IF ex > FarExactExp
  THEN IF kind = "shift" THEN {NumErr}              \* months far away
       ELSE IF sg < 0 THEN {NumErr} ELSE {Anything} \* a start before / after the calendar
  ELSE LET v == FarValue(sg, mt, ex)
       IN  IF kind = "shift" THEN ShiftOf(fn, a, v) ELSE ShiftOf(fn, v, a)

--------------------------------------------------------------------------
(* HOUR / MINUTE / SECOND read the fraction of the day, rounded to the     *)
(* nearest second, as a clock.  Time is kept in milliseconds of the day.   *)

Clock(sec) == <<sec \div 3600, (sec \div 60) % 60, sec % 60>>
NearestSecond(ms) == (ms + 500) \div 1000          \* ties are never enumerated
ClockOfMs(ms) == Clock(NearestSecond(ms) % 86400)

\* perturbations applicable to second s: stay inside the same day
DeltasFor(s) == {dl \in TimeDeltas : 1000 * s + dl >= 0 /\ NearestSecond(1000 * s + dl) < 86400
                                     /\ (dl < 0 => s > 0)}

\* the last half second of a day rounds to 00:00:00 (of the next day): the
\* clock never shows 24:00:00 or a second 60
RollDeltas == {501, 600, 750, 999}
RollOf(s) == IF s = 86399 THEN {<<dl, ClockOfMs(1000 * s + dl)>> : dl \in RollDeltas} ELSE {}

--------------------------------------------------------------------------
(* YEARFRAC(a, b, basis).  Only symmetry is claimed.  The three day-count  *)
(* bases whose definition is not disputed are written out (as a fraction   *)
(* <<numerator, denominator>>) so that TLC can check the law on them; the  *)
(* values are not used to judge the code.                                  *)

YearFracDef(a, b, basis) ==        \* basis in {2, 3, 4}
  LET lo == Min(a, b)
      hi == IF a < b THEN b ELSE a
      p1 == Parts(lo)
      p2 == Parts(hi)
  IN  IF basis = 2 THEN <<hi - lo, 360>>                 \* actual / 360
      ELSE IF basis = 3 THEN <<hi - lo, 365>>            \* actual / 365
      ELSE <<360 * (p2[1] - p1[1]) + 30 * (p2[2] - p1[2])
               + (Min(p2[3], 30) - Min(p1[3], 30)), 360>>   \* European 30/360

--------------------------------------------------------------------------
(* The machines *)

\* the variables of a machine that is not running stay at 0
IdleCal   == n = 0 /\ y = 0 /\ m = 0 /\ d = 0 /\ wd = 0
IdleDate  == ay = 0 /\ am = 0 /\ ad = 0
IdleShift == sn = 0 /\ sk = 0
IdleTime  == ts = 0 /\ th = 0 /\ tm = 0 /\ tsec = 0
IdleYf    == fa = 0 /\ fb = 0 /\ fbasis = 0 /\ fswap = 0
IdleFrac  == fkind = "-" /\ fwalk = "-" /\ f1 = 0 /\ f2 = 0 /\ f3 = 0
IdleFar   == rk = "-" /\ ra = 0 /\ rb = 0 /\ rsg = 0 /\ rmt = 0 /\ rex = 0

InitCal ==
  /\ mode = "cal"
  /\ n \in CalSeeds
  /\ IF n = 0
     THEN y = 1900 /\ m = 1 /\ d = 0         \* "1900-01-00"
          /\ wd = 7                          \* Excel calls it a Saturday
     ELSE y = Parts(n)[1] /\ m = Parts(n)[2] /\ d = Parts(n)[3]
          /\ wd = WeekdayOf(n)
  /\ IdleDate /\ IdleShift /\ IdleTime /\ IdleYf /\ IdleFrac /\ IdleFar

\* quick tier only: once past DayStepsUntil and at a month start whose
\* month is complete, the machine takes the whole month in one step
MonthJumps == d = 1 /\ n >= DayStepsUntil /\ n + MonthLen(y, m) <= LastSerial

NextDay ==
  /\ mode = "cal"
  /\ n < LastSerial /\ ~MonthJumps
  /\ n' = n + 1
  /\ IF d < MonthLen(y, m) THEN d' = d + 1 /\ m' = m /\ y' = y
     ELSE IF m < 12 THEN d' = 1 /\ m' = m + 1 /\ y' = y
     ELSE d' = 1 /\ m' = 1 /\ y' = y + 1
  /\ wd' = (wd % 7) + 1
  /\ UNCHANGED <<mode, dateVars, shiftVars, timeVars, yfVars, fracVars, farVars>>

NextMonth ==                      \* = MonthLen(y, m) times NextDay
  /\ mode = "cal" /\ MonthJumps
  /\ n' = n + MonthLen(y, m) /\ d' = 1
  /\ IF m < 12 THEN m' = m + 1 /\ y' = y ELSE m' = 1 /\ y' = y + 1
  /\ wd' = ((wd - 1 + MonthLen(y, m)) % 7) + 1
  /\ UNCHANGED <<mode, dateVars, shiftVars, timeVars, yfVars, fracVars, farVars>>

InitDate ==
  /\ mode = "date"
  /\ ay \in DateYears /\ ad = ArgLo
  /\ am \in (IF SplitChains /\ ay \in 0..9999 THEN ArgLo..ArgHi ELSE {ArgLo})
  /\ IdleCal /\ IdleShift /\ IdleTime /\ IdleYf /\ IdleFrac /\ IdleFar

NextDayArg ==                     \* DATE(y, m, d) -> DATE(y, m, d+1)
  /\ mode = "date" /\ ad < ArgHi
  /\ ad' = ad + 1 /\ UNCHANGED <<ay, am>>
  /\ UNCHANGED <<mode, calVars, shiftVars, timeVars, yfVars, fracVars, farVars>>

NextMonthArg ==                   \* ... -> DATE(y, m+1, ArgLo)
  /\ mode = "date" /\ ad = ArgHi /\ am < ArgHi
  /\ ay \in 0..9999    \* an illegal year is #NUM! whatever follows: one row
  /\ am' = am + 1 /\ ad' = ArgLo /\ UNCHANGED ay
  /\ UNCHANGED <<mode, calVars, shiftVars, timeVars, yfVars, fracVars, farVars>>

InitShift ==
  /\ mode = "shift"
  /\ sn \in ShiftStarts
  /\ sk \in (IF SplitChains THEN {k \in ShiftLo..ShiftHi : (k - ShiftLo) % 100 = 0}
             ELSE {ShiftLo})
  /\ IdleCal /\ IdleDate /\ IdleTime /\ IdleYf /\ IdleFrac /\ IdleFar

NextShift ==                      \* one more month
  /\ mode = "shift" /\ sk < ShiftHi
  /\ sk' = sk + 1 /\ UNCHANGED sn
  /\ UNCHANGED <<mode, calVars, dateVars, timeVars, yfVars, fracVars, farVars>>

InitTime ==
  /\ mode = "time"
  /\ th \in (IF SplitChains THEN 0..23 ELSE {0})
  /\ ts = 3600 * th /\ tm = 0 /\ tsec = 0
  /\ IdleCal /\ IdleDate /\ IdleShift /\ IdleYf /\ IdleFrac /\ IdleFar

Tick ==                           \* the clock advances one second
  /\ mode = "time" /\ ts < 86399
  /\ ts' = ts + 1
  /\ IF tsec < 59 THEN tsec' = tsec + 1 /\ tm' = tm /\ th' = th
     ELSE IF tm < 59 THEN tsec' = 0 /\ tm' = tm + 1 /\ th' = th
     ELSE tsec' = 0 /\ tm' = 0 /\ th' = th + 1
  /\ UNCHANGED <<mode, calVars, dateVars, shiftVars, yfVars, fracVars, farVars>>

InitYf ==
  /\ mode = "yf"
  /\ fa \in YfDays /\ fb \in YfDays /\ fa <= fb
  /\ fbasis = 0 /\ fswap = 0
  /\ IdleCal /\ IdleDate /\ IdleShift /\ IdleTime /\ IdleFrac /\ IdleFar

SwapDates ==                      \* YEARFRAC(a, b, .) -> YEARFRAC(b, a, .)
  /\ mode = "yf" /\ fswap = 0 /\ fa < fb
  /\ fa' = fb /\ fb' = fa /\ fswap' = 1 /\ UNCHANGED fbasis
  /\ UNCHANGED <<mode, calVars, dateVars, shiftVars, timeVars, fracVars, farVars>>

NextBasis ==
  /\ mode = "yf" /\ fswap = 0 /\ fbasis < 4
  /\ fbasis' = fbasis + 1 /\ UNCHANGED <<fa, fb, fswap>>
  /\ UNCHANGED <<mode, calVars, dateVars, shiftVars, timeVars, fracVars, farVars>>

\* where the walking numerator starts: at lo, with SplitChains at every 10th
\* whole number as well (the runs merge)
FracSeeds(lo, hi) ==
  {FracDen * a : a \in {b \in lo..hi : b = lo \/ (SplitChains /\ (b - lo) % 10 = 0)}}

InitFrac ==
  /\ mode = "frac"
  /\ \/ /\ fkind = "DATE" /\ f1 \in FracYears
        /\ \/ fwalk = "m" /\ f2 \in FracSeeds(ArgLo, ArgHi) /\ f3 \in FracDayPins
           \/ fwalk = "d" /\ f2 \in FracMonthPins /\ f3 \in FracSeeds(ArgLo, ArgHi)
     \/ /\ fkind = "SHIFT" /\ f1 \in FracStarts /\ fwalk = "m"
        /\ f2 \in FracSeeds(FracShiftLo, FracShiftHi) /\ f3 \in 0..(FracDen - 1)
  /\ IdleCal /\ IdleDate /\ IdleShift /\ IdleTime /\ IdleYf /\ IdleFar

FracHi == FracDen * (IF fkind = "DATE" THEN ArgHi ELSE FracShiftHi)

NextFrac ==                       \* the walking argument grows by 1 / FracDen
  /\ mode = "frac"
  /\ IF fwalk = "m" THEN f2 < FracHi /\ f2' = f2 + 1 /\ f3' = f3
                    ELSE f3 < FracHi /\ f3' = f3 + 1 /\ f2' = f2
  /\ UNCHANGED <<fkind, fwalk, f1>>
  /\ UNCHANGED <<mode, calVars, dateVars, shiftVars, timeVars, yfVars, farVars>>

InitFar ==
  /\ mode = "far"
  /\ \/ rk = "year"  /\ ra \in FarPins  /\ rb \in FarPins
     \/ rk = "month" /\ ra \in FarYears /\ rb \in FarPins
     \/ rk = "day"   /\ ra \in FarYears /\ rb \in FarPins
     \/ rk = "shift" /\ ra \in FarStarts /\ rb = 0
     \/ rk = "start" /\ ra \in FarPins  /\ rb = 0
  /\ rsg \in {-1, 1} /\ rmt \in FarMants /\ rex = 0
  /\ IdleCal /\ IdleDate /\ IdleShift /\ IdleTime /\ IdleYf /\ IdleFrac

NextDecade ==                     \* the far argument moves ten times as far away
  /\ mode = "far" /\ rex < FarMaxExp
  /\ rex' = rex + 1 /\ UNCHANGED <<rk, ra, rb, rsg, rmt>>
  /\ UNCHANGED <<mode, calVars, dateVars, shiftVars, timeVars, yfVars, fracVars>>

Init == \/ "cal" \in Modes /\ InitCal
        \/ "date" \in Modes /\ InitDate
        \/ "shift" \in Modes /\ InitShift
        \/ "time" \in Modes /\ InitTime
        \/ "yf" \in Modes /\ InitYf
        \/ "frac" \in Modes /\ InitFrac
        \/ "far" \in Modes /\ InitFar

Next == NextDay \/ NextMonth \/ NextDayArg \/ NextMonthArg \/ NextShift \/ Tick
        \/ SwapDates \/ NextBasis \/ NextFrac \/ NextDecade

Spec == Init /\ [][Next]_vars

--------------------------------------------------------------------------
(* Laws -- calendar machine *)

TypeOK ==
  /\ mode \in Modes
  /\ mode = "cal" => /\ n \in 0..LastSerial /\ y \in 1900..9999
                     /\ m \in 1..12 /\ d \in 0..31 /\ wd \in 1..7
  /\ mode = "frac" => /\ fkind \in {"DATE", "SHIFT"} /\ fwalk \in {"m", "d"}
                      /\ fkind = "DATE" => /\ f1 \in FracYears
                                           /\ f2 \in (FracDen * ArgLo)..(FracDen * ArgHi)
                                           /\ f3 \in (FracDen * ArgLo)..(FracDen * ArgHi)
                      /\ fkind = "SHIFT" => /\ f1 \in FracStarts /\ f1 \in 0..MaxSerial
                                            /\ f2 \in (FracDen * FracShiftLo)..(FracDen * FracShiftHi)
                                            /\ f3 \in 0..(FracDen - 1)
  /\ mode # "frac" => IdleFrac
  /\ mode = "far" => /\ rk \in {"year", "month", "day", "shift", "start"}
                     /\ rsg \in {-1, 1} /\ rmt \in FarMants /\ rmt \in 1..9
                     /\ rex \in 0..FarMaxExp
  /\ mode # "far" => IdleFar

\* the closed form agrees with the successor machine at every day
SerialClosedForm == mode = "cal" => DateSerial(y, m, d) = n
\* ... and so does its inverse
PartsInverse     == mode = "cal" => Parts(n) = <<y, m, d>>

\* DATE(YEAR(n), MONTH(n), DAY(n)) = n   (YEAR/MONTH/DAY of n are the
\* components of Parts(n) by definition, and PartsInverse says these are y, m, d)
RoundTrip == mode = "cal" => DateFn(y, m, d) = {Num(n)}

\* day 0 and day 60 are the fictitious dates, and only they are
Fictitious == mode = "cal" =>
  /\ (n = 0)  <=> (d = 0)
  /\ (n = 0)  => <<y, m, d>> = <<1900, 1, 0>>
  /\ (n = 60) <=> <<y, m, d>> = <<1900, 2, 29>>
  /\ (n = 59) => <<y, m, d>> = <<1900, 2, 28>>
  /\ (n = 61) => <<y, m, d>> = <<1900, 3, 1>>

\* for n > 60: (y, m, d) is a real Gregorian date and it is 1899-12-30 + n
ProlepticAfter60 == (mode = "cal" /\ n > 60) =>
  /\ d >= 1 /\ d <= MonthLenG(y, m)
  /\ GregOrdinal(y, m, d) = Ordinal18991230 + n

\* WEEKDAY: period 7 ... and the true weekday of the Gregorian date
WeekdayPeriod7  == mode = "cal" => wd = WeekdayOf(n) /\ WeekdayFn(n) = {Num(wd)}
WeekdayIsZeller == (mode = "cal" /\ n > 60) => wd = Zeller(y, m, d)
WeekdayStep == [][mode = "cal" => (n' > n /\ (wd' - wd) % 7 = (n' - n) % 7)]_vars

\* the machine ends at 9999-12-31 = 2958465, not a day earlier or later
LastDay == mode = "cal" =>
  ((n = MaxSerial) <=> (<<y, m, d>> = <<9999, 12, 31>>))

\* EOMONTH(n, 0) and the successor machine: a day whose successor is a
\* first of a month is its month's last day (evaluated at month ends and
\* month starts only, to keep the 3-million-state run cheap)
EoMonthIsMonthEnd == [][(mode = "cal" /\ n > 0 /\ n' = n + 1) =>
  /\ (d' = 1) => EoMonthFn(n, 0) = {Num(n)}
  /\ (d = 1)  => EoMonthFn(n, 0) = {Num(n + MonthLen(y, m) - 1)}]_vars

\* what NextMonth does is what MonthLen(y, m) day steps do (by the closed
\* form, which the thorough tier compares with NextDay at every single day)
MonthJumpSound == (mode = "cal" /\ d = 1 /\ n + MonthLen(y, m) <= LastSerial) =>
  /\ Parts(n + MonthLen(y, m) - 1) = <<y, m, MonthLen(y, m)>>
  /\ Parts(n + MonthLen(y, m)) =
       <<IF m = 12 THEN y + 1 ELSE y, IF m = 12 THEN 1 ELSE m + 1, 1>>

(* Laws -- DATE grid *)
DateResult == DateFn(ay, am, ad)
IsNumber(r) == r[1] = "N"
TheNumber(set) == (CHOOSE r \in set : IsNumber(r))[2]
Single(set) == Cardinality(set) = 1 /\ \E r \in set : IsNumber(r)

\* recursive carrying = serial arithmetic from the first of the month
CarryAgrees == (mode = "date" /\ ay \in 0..9999) =>
  LET c == Carried(ay, am, ad)
  IN  DateSerial(c[1], c[2], c[3]) = RawSerial(ay, am, ad)

\* a number returned by DATE is the serial whose parts are the carried date
DateHitsCarriedDay == (mode = "date" /\ Single(DateResult)) =>
  LET s == TheNumber(DateResult)
  IN  s > 0 => Parts(s) = Carried(ay, am, ad)

\* one more day is one more serial; one more month is that month's length
DayArgLinear == [][(mode = "date" /\ ad' = ad + 1 /\ Single(DateResult)
                    /\ Single(DateFn(ay', am', ad')))
                   => TheNumber(DateFn(ay', am', ad')) = TheNumber(DateResult) + 1]_vars
MonthArgStep == (mode = "date" /\ ad = 1 /\ Single(DateResult)
                 /\ Single(DateFn(ay, am + 1, 1))) =>
  LET ym == CarryMonth(EffYear(ay), am)
  IN  TheNumber(DateFn(ay, am + 1, 1)) - TheNumber(DateResult) = MonthLen(ym[1], ym[2])

\* the spelling of a carry does not matter: a day written from the first
\* of month m is the same day written from the first of month m + 1
\* (DATE(y, m + 1, 0) is the last day of month m -- of December 9999 too)
CarrySpelling == (mode = "date" /\ ay \in 0..9999) =>
  LET ym == CarryMonth(EffYear(ay), am)
      a  == DateFn(ay, am, ad)
      b  == DateFn(ay, am + 1, ad - MonthLen(ym[1], ym[2]))
  IN  (Anything \notin a /\ Anything \notin b) => a = b

\* out of range is #NUM!, in range is a serial
DateInRange == mode = "date" =>
  \A r \in DateResult : IsNumber(r) => r[2] \in 0..MaxSerial

(* Laws -- EOMONTH / EDATE *)
ShiftLaws == (mode = "shift" /\ sn \in 0..MaxSerial) =>
  LET e  == EoMonthFn(sn, sk)
      t  == EDateFn(sn, sk)
      p  == Parts(sn)
      ix == MonthIndex(p[1], p[2]) + sk
  IN  /\ Single(e) =>
          LET r == TheNumber(e)  q == Parts(r)
          IN  /\ r \in 1..MaxSerial
              /\ MonthIndex(q[1], q[2]) = ix             \* the right month
              /\ q[3] = MonthLen(q[1], q[2])             \* its last day
              /\ (r < MaxSerial => Parts(r + 1)[3] = 1)  \* next day starts a month
      /\ Single(t) =>
          LET r == TheNumber(t)  q == Parts(r)
          IN  /\ MonthIndex(q[1], q[2]) = ix             \* whole months
              /\ q[3] = Min(p[3], MonthLen(q[1], q[2]))  \* same day, or month end
              /\ Single(e) /\ r <= TheNumber(e)
      /\ (Single(e) <=> (ix >= 1900 * 12 /\ ix <= 9999 * 12 + 11))
      /\ (~Single(e) => e = {NumErr})
\* EOMONTH(n, k+1) = EOMONTH(n, k) + length of the month reached
EoMonthStep == [][(mode = "shift" /\ sn \in 0..MaxSerial
                   /\ Single(EoMonthFn(sn, sk)) /\ Single(EoMonthFn(sn', sk')))
  => LET r2 == TheNumber(EoMonthFn(sn', sk'))  q == Parts(r2)
     IN  r2 = TheNumber(EoMonthFn(sn, sk)) + MonthLen(q[1], q[2])]_vars

(* Laws -- clock *)
ClockLaws == mode = "time" =>
  /\ Clock(ts) = <<th, tm, tsec>>
  /\ th \in 0..23 /\ tm \in 0..59 /\ tsec \in 0..59
  /\ 3600 * th + 60 * tm + tsec = ts
  \* every instant closer to second ts than to its neighbours reads the same
  /\ \A dl \in DeltasFor(ts) : ClockOfMs(1000 * ts + dl) = <<th, tm, tsec>>
  /\ 0 \in DeltasFor(ts)
  /\ \A r \in RollOf(ts) : r[2] = <<0, 0, 0>>

(* Laws -- YEARFRAC symmetry, on the bases that are written out *)
YearFracSymmetric == [][(mode = "yf" /\ fswap = 0 /\ fswap' = 1 /\ fbasis \in {2, 3, 4})
  => YearFracDef(fa', fb', fbasis') = YearFracDef(fa, fb, fbasis)]_vars
YearFracSane == (mode = "yf" /\ fbasis \in {2, 3, 4}) =>
  /\ YearFracDef(fa, fb, fbasis)[1] >= 0
  /\ (fbasis # 4 => (fa = fb <=> YearFracDef(fa, fb, fbasis)[1] = 0))

(* Laws -- arguments with a fraction *)
FracResult == IF fkind = "DATE" THEN DateFracFn(f1, f2, f3)
              ELSE EDateFracFn(Moment(f1, f3), f2)
FracLaws == mode = "frac" =>
  /\ \A num \in (IF fkind = "DATE" THEN {f1, f2, f3} ELSE {f2}) :
        /\ TruncOf(num) \in Whole(num)
        \* dropping the fraction moves an argument by less than one
        /\ \A w \in Whole(num) : w * FracDen - num < FracDen /\ num - w * FracDen < FracDen
        /\ IsWhole(num) => Whole(num) = {TruncOf(num)} /\ TruncOf(num) * FracDen = num
        /\ num >= 0 => Whole(num) = {num \div FracDen}
  /\ fkind = "DATE" =>
        \* whole arguments: DATE as it is defined above;  arguments that
        \* are not negative: DATE of the whole parts
        /\ (\A a \in {f2, f3} : a >= 0 \/ IsWhole(a)) =>
              DateFracFn(f1, f2, f3) = DateFn(TruncOf(f1), TruncOf(f2), TruncOf(f3))
        /\ DateFn(TruncOf(f1), TruncOf(f2), TruncOf(f3)) \subseteq DateFracFn(f1, f2, f3)
  /\ fkind = "SHIFT" =>
        \* every moment of a day shifts like the day itself
        /\ DayOfMoment(Moment(f1, f3)) = f1
        /\ (f2 >= 0 \/ IsWhole(f2)) =>
              /\ EDateFracFn(Moment(f1, f3), f2) = EDateFn(f1, TruncOf(f2))
              /\ EoMonthFracFn(Moment(f1, f3), f2) = EoMonthFn(f1, TruncOf(f2))
        /\ EDateFn(f1, TruncOf(f2)) \subseteq EDateFracFn(Moment(f1, f3), f2)
        /\ EoMonthFn(f1, TruncOf(f2)) \subseteq EoMonthFracFn(Moment(f1, f3), f2)
\* a non-negative argument that grows without reaching the next whole
\* number changes nothing
FracStep == [][(mode = "frac" /\ f2 >= 0 /\ f3 >= 0
                /\ TruncOf(f2') = TruncOf(f2) /\ TruncOf(f3') = TruncOf(f3))
               => FracResult' = FracResult]_vars

(* Laws -- far arguments *)
AbsOf(x) == IF x < 0 THEN -x ELSE x
FarExact == rex <= FarExactExp
FarV == FarValue(rsg, rmt, rex)
FarIsDate == rk \in {"year", "month", "day"}
FarDate    == FarDateFn(rk, ra, rb, rsg, rmt, rex)
FarEoMonth == FarShiftFn("EOMONTH", rk, ra, rsg, rmt, rex)
FarEDate   == FarShiftFn("EDATE", rk, ra, rsg, rmt, rex)

\* once the far argument has passed the threshold the result has left the
\* calendar; every value that is too large to be evaluated is past it
FarBeyond == mode = "far" =>
  /\ 10 ^ (FarExactExp + 1) >= FarThreshold(rk) /\ 10 ^ (FarExactExp + 1) > MaxSerial
  /\ FarExact =>
       IF rk = "start"
       THEN /\ FarV < 0 => (FarEoMonth = {NumErr} /\ FarEDate = {NumErr})
            /\ FarV > MaxSerial => (FarEoMonth = {Anything} /\ FarEDate = {Anything})
       ELSE AbsOf(FarV) >= FarThreshold(rk) =>
              IF FarIsDate THEN FarDate = {NumErr}
              ELSE FarEoMonth = {NumErr} /\ FarEDate = {NumErr}
  \* a serial day is returned only from inside the calendar
  /\ FarIsDate => \A r \in FarDate : IsNumber(r) => r[2] \in 0..MaxSerial

\* a decade further: DATE is linear in its day argument (one more day is
\* one more serial, however many) and monotone in its month argument (a
\* month is at least 28 days) -- beyond the calendar there is no way back
FarLinear == [][(mode = "far" /\ rex' = rex + 1 /\ rex' <= FarExactExp) =>
  LET v == FarV
      w == FarValue(rsg, rmt, rex')
  IN  /\ rk = "day" =>
            RawSerial(ra, rb, w) - RawSerial(ra, rb, v) = w - v
      /\ rk = "month" =>
            IF w > v THEN RawSerial(ra, w, rb) - RawSerial(ra, v, rb) >= 28 * (w - v)
                     ELSE RawSerial(ra, v, rb) - RawSerial(ra, w, rb) >= 28 * (v - w)]_vars

--------------------------------------------------------------------------
(* Test-vector export.  The calendar machine prints one line per month     *)
(* start (d <= 1) and its last state; the harness expands the days in      *)
(* between from consecutive lines of this output only.                     *)

Export ==
  CASE mode = "cal" ->
         IF d <= 1 \/ n = LastSerial
         THEN /\ PrintT(ToJson([t |-> "cal", n |-> n, y |-> y, m |-> m,
                                 d |-> d, wd |-> wd]))
              \* serials outside 0..MaxSerial, exported once
              /\ n = 0 => PrintT(ToJson(
                   [t |-> "edge", neg |-> -1, over |-> MaxSerial + 1,
                    negParts  |-> YearFn(-1) \cup MonthFn(-1) \cup DayFn(-1)
                                   \cup WeekdayFn(-1),
                    overParts |-> YearFn(MaxSerial + 1) \cup MonthFn(MaxSerial + 1)
                                   \cup DayFn(MaxSerial + 1)
                                   \cup WeekdayFn(MaxSerial + 1)]))
         ELSE TRUE
    [] mode = "date" ->
         PrintT(ToJson([t |-> "date", y |-> ay, m |-> am, d |-> ad,
                        allowed |-> DateFn(ay, am, ad)]))
    [] mode = "shift" ->
         PrintT(ToJson([t |-> "shift", n |-> sn, k |-> sk,
                        eomonth |-> EoMonthFn(sn, sk),
                        edate   |-> EDateFn(sn, sk)]))
    [] mode = "time" ->
         PrintT(ToJson([t |-> "time", s |-> ts, h |-> th, mi |-> tm,
                        sec |-> tsec, deltas |-> DeltasFor(ts),
                        roll |-> RollOf(ts)]))
    [] mode = "yf" ->
         PrintT(ToJson([t |-> "yf", a |-> fa, b |-> fb, basis |-> fbasis,
                        swapped |-> fswap]))
    [] mode = "frac" ->
         IF fkind = "DATE"
         THEN PrintT(ToJson([t |-> "fdate", den |-> FracDen, y |-> f1, m |-> f2,
                             d |-> f3, walk |-> fwalk,
                             allowed |-> DateFracFn(f1, f2, f3)]))
         ELSE PrintT(ToJson([t |-> "fshift", den |-> FracDen, n |-> f1, q |-> f3,
                             k |-> f2,
                             eomonth |-> EoMonthFracFn(Moment(f1, f3), f2),
                             edate   |-> EDateFracFn(Moment(f1, f3), f2),
                             year |-> YearFn(f1), month |-> MonthFn(f1),
                             day |-> DayFn(f1), weekday |-> WeekdayFn(f1)]))
    [] mode = "far" ->
         PrintT(ToJson([t |-> "far", kind |-> rk, a |-> ra, b |-> rb,
                        sg |-> rsg, mt |-> rmt, ex |-> rex,
                        date    |-> IF FarIsDate THEN FarDate ELSE {},
                        eomonth |-> IF FarIsDate THEN {} ELSE FarEoMonth,
                        edate   |-> IF FarIsDate THEN {} ELSE FarEDate]))
=============================================================================
