\* thorough tier: every machine, all 2 958 466 days, the larger argument sets
CONSTANTS
  Modes <- AllModes
  LastSerial <- MCLastSerial
  DayStepsUntil <- BigDayStepsUntil
  CalSeeds <- BigCalSeeds
  SplitChains <- MCSplitChains
  DateYears <- BigDateYears
  ArgLo <- MCArgLo
  ArgHi <- MCArgHi
  ShiftStarts <- BigShiftStarts
  ShiftLo <- MCShiftLo
  ShiftHi <- MCShiftHi
  TimeDeltas <- BigTimeDeltas
  YfDays <- BigYfDays
  FracDen <- MCFracDen
  FracYears <- BigFracYears
  FracMonthPins <- MCFracMonthPins
  FracDayPins <- MCFracDayPins
  FracStarts <- BigFracStarts
  FracShiftLo <- MCFracShiftLo
  FracShiftHi <- MCFracShiftHi
  FarMants <- MCFarMants
  FarMaxExp <- MCFarMaxExp
  FarYears <- BigFarYears
  FarPins <- BigFarPins
  FarStarts <- BigFarStarts
SPECIFICATION Spec
INVARIANT TypeOK
INVARIANT SerialClosedForm
INVARIANT PartsInverse
INVARIANT RoundTrip
INVARIANT Fictitious
INVARIANT ProlepticAfter60
INVARIANT WeekdayPeriod7
INVARIANT WeekdayIsZeller
INVARIANT LastDay
INVARIANT MonthJumpSound
INVARIANT CarryAgrees
INVARIANT DateHitsCarriedDay
INVARIANT MonthArgStep
INVARIANT DateInRange
INVARIANT CarrySpelling
INVARIANT ShiftLaws
INVARIANT ClockLaws
INVARIANT YearFracSane
INVARIANT FracLaws
INVARIANT FarBeyond
INVARIANT Export
PROPERTY WeekdayStep
PROPERTY EoMonthIsMonthEnd
PROPERTY DayArgLinear
PROPERTY EoMonthStep
PROPERTY YearFracSymmetric
PROPERTY FracStep
PROPERTY FarLinear
