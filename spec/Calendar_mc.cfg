\* quick tier: every machine, full calendar, reduced argument sets
CONSTANTS
  Modes <- AllModes
  LastSerial <- MCLastSerial
  DayStepsUntil <- MCDayStepsUntil
  CalSeeds <- MCCalSeeds
  SplitChains <- MCSplitChains
  DateYears <- MCDateYears
  ArgLo <- MCArgLo
  ArgHi <- MCArgHi
  ShiftStarts <- MCShiftStarts
  ShiftLo <- MCShiftLo
  ShiftHi <- MCShiftHi
  TimeDeltas <- MCTimeDeltas
  YfDays <- MCYfDays
  FracDen <- MCFracDen
  FracYears <- MCFracYears
  FracMonthPins <- MCFracMonthPins
  FracDayPins <- MCFracDayPins
  FracStarts <- MCFracStarts
  FracShiftLo <- MCFracShiftLo
  FracShiftHi <- MCFracShiftHi
  FarMants <- MCFarMants
  FarMaxExp <- MCFarMaxExp
  FarYears <- MCFarYears
  FarPins <- MCFarPins
  FarStarts <- MCFarStarts
SPECIFICATION Spec
INVARIANT TypeOK
INVARIANT SerialClosedForm
INVARIANT PartsInverse
INVARIANT RoundTrip
INVARIANT Fictitious
INVARIANT ProlepticAfter60
INVARIANT WeekdayPeriod7
INVARIANT WeekdayIsZeller
INVARIANT LastDay
INVARIANT MonthJumpSound
INVARIANT CarryAgrees
INVARIANT DateHitsCarriedDay
INVARIANT MonthArgStep
INVARIANT DateInRange
INVARIANT CarrySpelling
INVARIANT ShiftLaws
INVARIANT ClockLaws
INVARIANT YearFracSane
INVARIANT FracLaws
INVARIANT FarBeyond
INVARIANT Export
PROPERTY WeekdayStep
PROPERTY EoMonthIsMonthEnd
PROPERTY DayArgLinear
PROPERTY EoMonthStep
PROPERTY YearFracSymmetric
PROPERTY FracStep
PROPERTY FarLinear
