----------------------------- MODULE CellValues -----------------------------
(***************************************************************************)
(* Worksheet cell values shared by Aggregates (C14) and Criteria (C15).    *)
(*                                                                         *)
(* TLC cannot keep integers and strings in one set, so a value is a tuple  *)
(* whose first component is a tag:                                         *)
(*    <<"Z">>          a blank cell                                        *)
(*    <<"N", k>>       the number k / Scale  (k an integer; TLC has no     *)
(*                     fractions, so numbers are counted in halves and all *)
(*                     arithmetic below is exact)                          *)
(*    <<"S", t>>       text; t is an atom (TLA+ string) where only the     *)
(*                     identity of the text matters (C14) and a sequence   *)
(*                     of one-character strings where characters matter    *)
(*                     (C15)                                               *)
(*    <<"B", 0|1>>     FALSE / TRUE                                        *)
(*    <<"E", code>>    an error value such as "#N/A"                       *)
(* Results of functions are either an error value <<"E", code>> or an      *)
(* exact rational <<"R", num, den>> = num / den with den > 0 (not          *)
(* necessarily in lowest terms; compare with REq).                         *)
(***************************************************************************)
EXTENDS Integers, Sequences, FiniteSets

Scale == 2                       \* <<"N", k>> denotes k / Scale

Blank   == <<"Z">>
Num(k)  == <<"N", k>>
Txt(t)  == <<"S", t>>
Bool(b) == <<"B", b>>
Err(e)  == <<"E", e>>

IsBlank(v) == v[1] = "Z"
IsNum(v)   == v[1] = "N"
IsTxt(v)   == v[1] = "S"
IsBool(v)  == v[1] = "B"
IsErr(v)   == v[1] = "E"

DIV0  == Err("#DIV/0!")
VALUE == Err("#VALUE!")

--------------------------------------------------------------------------
(* exact rationals *)
R(n, d)    == <<"R", n, d>>
IsR(x)     == x[1] = "R"
Zero       == R(0, 1)
REq(a, b)  == a[2] * b[3] = b[2] * a[3]
RLe(a, b)  == a[2] * b[3] <= b[2] * a[3]
RAdd(a, b) == R(a[2] * b[3] + b[2] * a[3], a[3] * b[3])
OfK(k)     == R(k, Scale)              \* the number held by <<"N", k>>

--------------------------------------------------------------------------
(* sets of integers *)
MinOf(S) == CHOOSE m \in S : \A x \in S : m <= x
MaxOf(S) == CHOOSE m \in S : \A x \in S : m >= x

RECURSIVE SumTo(_, _)
\* f[1] + ... + f[n]
SumTo(f, n) == IF n = 0 THEN 0 ELSE f[n] + SumTo(f, n - 1)
\* sum of f[i] over the index set I \subseteq 1..n
SumSet(f, I, n) == LET g == [i \in 1..n |-> IF i \in I THEN f[i] ELSE 0]
                   IN  SumTo(g, n)

--------------------------------------------------------------------------
(* What a cell contributes to an aggregate over a RANGE.                   *)
(* Only numbers count.  Text (even text that looks like a number),         *)
(* logicals and blanks are ignored.  countBools = TRUE is the alternative  *)
(* reading used by C15 for the summed range of SUMIF(S) etc., where        *)
(* Microsoft's own documentation says TRUE counts as 1; C14 always uses    *)
(* FALSE.                                                                  *)
Counts(v, countBools) == IsNum(v) \/ (countBools /\ IsBool(v))
KOf(v) == IF IsNum(v) THEN v[2] ELSE Scale * v[2]        \* in 1/Scale units

\* positions (indices of the sequence q) by kind
NumIdx(q, cb) == {i \in DOMAIN q : Counts(q[i], cb)}
ErrIdx(q)     == {i \in DOMAIN q : IsErr(q[i])}
ErrSet(q)     == {q[i] : i \in ErrIdx(q)}
HasErr(q)     == ErrIdx(q) # {}
FirstErr(q)   == q[MinOf(ErrIdx(q))]          \* first in sequence order
--------------------------------------------------------------------------
(* The aggregate VALUES of a sequence of cells q that holds no error       *)
(* value.  Stated over index sets, not as folds, so that the inductive     *)
(* (fold) characterisation is a law to be checked (Aggregates!FoldStep).   *)
KsOf(q, cb)   == {KOf(q[i]) : i \in NumIdx(q, cb)}
SumK(q, cb)   == LET f == [i \in 1..Len(q) |-> IF Counts(q[i], cb) THEN KOf(q[i]) ELSE 0]
                 IN  SumTo(f, Len(q))
CountN(q, cb) == Cardinality(NumIdx(q, cb))

VSum(q, cb)   == R(SumK(q, cb), Scale)                 \* nothing numeric: 0
VCount(q, cb) == R(CountN(q, cb), 1)
VAvg(q, cb)   == IF CountN(q, cb) = 0 THEN DIV0        \* nothing numeric
                 ELSE R(SumK(q, cb), Scale * CountN(q, cb))
VMin(q, cb)   == IF CountN(q, cb) = 0 THEN Zero ELSE OfK(MinOf(KsOf(q, cb)))
VMax(q, cb)   == IF CountN(q, cb) = 0 THEN Zero ELSE OfK(MaxOf(KsOf(q, cb)))
=============================================================================
