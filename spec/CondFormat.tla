----------------------------- MODULE CondFormat -----------------------------
(***************************************************************************)
(* X03 -- conditional formats: which formats a cell shows.                 *)
(*                                                                         *)
(* A worksheet carries conditional-format RULES.  A rule has               *)
(*   rng   the cells it applies to: a sequence of rectangles (the "sqref"  *)
(*         of the file, in file order),                                    *)
(*   f     a formula written for the ORIGIN cell of rng, every reference   *)
(*         part (column, row) relative or absolute ($),                    *)
(*   prio  its priority (1 = first; unique on a sheet),                    *)
(*   stop  "stop if true",                                                 *)
(*   fmt   the format it gives (the differential style of the file).       *)
(* For a cell c the ANSWER is the sequence of the formats of exactly those *)
(* rules that apply to c and whose formula, translated to c the way Excel  *)
(* fills a formula (relative parts move by c - origin, $ parts stay),      *)
(* is TRUE for the current cell values -- in priority order, cut after the *)
(* first satisfied rule that has stop-if-true.  The answer for a rectangle *)
(* is the matrix of the answers of its cells, for a list the sequence of   *)
(* the answers of its items; an address without a sheet means the active   *)
(* sheet.  The answer is a function of the CURRENT values: nothing is      *)
(* remembered between two queries (the implementation keeps a compiled     *)
(* ".cf" cell per queried cell, outside the dependency graph, and          *)
(* evaluates it again at every call; that cell is not part of this model). *)
(*                                                                         *)
(* Where Excel's behaviour is not established the definition is a RELATION *)
(* (Allowed = the set of answers of all "worlds"):                         *)
(*   origin   for a range of several rectangles the formula is written for *)
(*            the top-left cell of the FIRST rectangle of the file, or of  *)
(*            the TOP-LEFT-MOST rectangle (the file format says the        *)
(*            former, other consumers use the latter).  Only ranges with a *)
(*            rectangle whose corner is above and left of all others are   *)
(*            in the domain.                                               *)
(*   leaving  a translated reference that leaves the sheet WRAPS around    *)
(*            (what Excel does in conditional formats and names) or is     *)
(*            #REF! (what filling a formula gives): the rule is then not   *)
(*            satisfied.  Never an exception.                              *)
(*   text     a formula whose value is a text: satisfied or not ("U").     *)
(* Established and demanded: TRUE and non-zero numbers satisfy; FALSE, 0,  *)
(* a blank and EVERY ERROR VALUE do not.                                   *)
(*                                                                         *)
(* Rule types: "expression" (the above), "cellIs" (cell value > m: the     *)
(* file holds only the operand m, the condition is about the cell itself), *)
(* "scale" (colour scale: no formula, no format, never in the answer).     *)
(*                                                                         *)
(* The workbook: sheet S (active, second in the file) with value cells     *)
(* 1..W x 1..H and a derived column DC = W+1 holding                       *)
(* =IF(ISBLANK(A<r>),0,A<r>); sheet T with fixed numbers.  Rules live on   *)
(* both sheets, references may name the other sheet.                       *)
(*                                                                         *)
(* The machine: Init picks a scenario (the rules of both sheets); the      *)
(* actions are SetValue(cell, v) on value cells of S and Query(address).   *)
(* The variable `last' only labels the transition; the VIEW hides it, so   *)
(* a state of the search is (scenario, values) and every law is evaluated  *)
(* once per such state.  PrintInit (invariant) prints every scenario,      *)
(* PrintEdge (action constraint) every transition, also those that lead to *)
(* a state already seen: the harness rebuilds the state graph from them    *)
(* and walks it on the real ExcelCompiler.                                 *)
(***************************************************************************)
EXTENDS Integers, Sequences, FiniteSets, TLC, Json

CONSTANTS W, H,        \* value cells of S and T: columns 1..W, rows 1..H
          Scenarios,   \* sequence of [name, rules (on S), trules (on T)]
          InitGrid,    \* <<c, r>> -> value: what the file holds on S
          SetPool,     \* values SetValue offers
          MaxChanged,  \* SetValue keeps at most this many cells away from InitGrid
          Queries      \* sequence of query descriptors

VARIABLES sc,          \* index into Scenarios
          vals,        \* <<c, r>> -> current value of the value cells of S
          last,        \* the action that led here [k, c, r, v, old, q]
          stb,         \* Settable(sc): fixed by Init (kept in the state: computed once)
          ans          \* Answers(sc, vals): the allowed answers of every cell, as rule
                       \* indices (kept in the state: computed once per SetValue)
vars == <<sc, vals, last, stb, ans>>

MaxRow == 1048576
MaxCol == 16384
DC     == W + 1        \* the derived column of S
Active == "S"
Grid   == (1..W) \X (1..H)

---------------------------------------------------------------------------
(* values: blank, small integers, one error, text, logicals               *)
Z        == <<"Z">>
N(n)     == <<"N", n>>
DIV0     == <<"E", "#DIV/0!">>
Txt(s)   == <<"S", s>>
TRUEV    == <<"B", 1>>
FALSEV   == <<"B", 0>>
Bool(p)  == IF p THEN TRUEV ELSE FALSEV
IsErr(v) == v[1] = "E"
IsNumish(v) == v[1] \in {"Z", "N"}            \* a blank counts as 0 in comparisons
Num(v)   == IF v = Z THEN 0 ELSE v[2]
Fold(s)  == IF s = "X" THEN "x" ELSE IF s = "Y" THEN "y" ELSE s   \* text compares caseless

\* =IF(ISBLANK(A<r>),0,A<r>)
Derived(v) == IF v = Z THEN N(0) ELSE v

CellVal(g, sh, c, r) ==
  IF sh = "S"
  THEN IF c \in 1..W /\ r \in 1..H THEN g[<<c, r>>]
       ELSE IF c = DC /\ r \in 1..H THEN Derived(g[<<1, r>>])
       ELSE Z
  ELSE IF c \in 1..W /\ r \in 1..H THEN N((c + r) % 3) ELSE Z

(* the operators of the formula family.  Excel orders numbers < text <     *)
(* logicals; an error operand is the result.                               *)
GT(v, m) == IF IsErr(v) THEN v ELSE IF IsNumish(v) THEN Bool(Num(v) > m) ELSE TRUEV
LT(v, n) == IF IsErr(v) THEN v ELSE IF IsNumish(v) THEN Bool(Num(v) < n) ELSE FALSEV
EqBlank(y) == CASE y = Z      -> TRUEV
                [] y[1] = "N" -> Bool(y[2] = 0)
                [] y[1] = "S" -> Bool(y[2] = "")
                [] y[1] = "B" -> Bool(y[2] = 0)
EQ(x, y) == CASE IsErr(x)      -> x
              [] IsErr(y)      -> y
              [] x = Z         -> EqBlank(y)
              [] y = Z         -> EqBlank(x)
              [] x[1] # y[1]   -> FALSEV
              [] x[1] = "S"    -> Bool(Fold(x[2]) = Fold(y[2]))
              [] OTHER         -> Bool(x[2] = y[2])
AND2(x, y) == IF IsErr(x) THEN x ELSE IF IsErr(y) THEN y ELSE Bool(x = TRUEV /\ y = TRUEV)

(* does a formula value satisfy its rule: "T" yes, "F" no, "U" not judged  *)
Truth3(v) == CASE v[1] = "B" -> IF v[2] = 1 THEN "T" ELSE "F"
               [] v[1] = "N" -> IF v[2] # 0 THEN "T" ELSE "F"
               [] v[1] = "Z" -> "F"
               [] v[1] = "E" -> "F"
               [] v[1] = "S" -> "U"

---------------------------------------------------------------------------
(* references and formulas                                                 *)
(*   ref  [sh, col, row, ca, ra]   sh = "" : the sheet of the rule         *)
(*   f    [k, a, b, m, n]                                                  *)
(*        "gt"    a > m              "eq"   a = b                          *)
(*        "and"   AND(a > m, b < n)  "blank" ISBLANK(a)     "val"  a       *)
Ref(sh, c, r, ca, ra) == [sh |-> sh, col |-> c, row |-> r, ca |-> ca, ra |-> ra]
Kinds == {"gt", "eq", "and", "blank", "val"}
TwoRefs(f) == f.k \in {"eq", "and"}
RefsOf(f) == IF TwoRefs(f) THEN {f.a, f.b} ELSE {f.a}

\* filling: relative parts move, $ parts stay (the result may lie off the sheet)
Shift(x, dc, dr) == [x EXCEPT !.col = IF x.ca THEN @ ELSE @ + dc,
                              !.row = IF x.ra THEN @ ELSE @ + dr]
ShiftF(f, dc, dr) == [f EXCEPT !.a = Shift(@, dc, dr), !.b = Shift(@, dc, dr)]
OnSheet(x) == x.col \in 1..MaxCol /\ x.row \in 1..MaxRow
WrapRef(x) == [x EXCEPT !.col = ((@ - 1) % MaxCol) + 1, !.row = ((@ - 1) % MaxRow) + 1]

EvalF(f, va, vb) == CASE f.k = "gt"    -> GT(va, f.m)
                      [] f.k = "eq"    -> EQ(va, vb)
                      [] f.k = "and"   -> AND2(GT(va, f.m), LT(vb, f.n))
                      [] f.k = "blank" -> Bool(va = Z)
                      [] f.k = "val"   -> va

---------------------------------------------------------------------------
(* rules                                                                   *)
(*   [ty, rng, f, prio, stop, fmt]   a rectangle is <<c1, r1, c2, r2>>     *)
InRect(c, r, q) == q[1] <= c /\ c <= q[3] /\ q[2] <= r /\ r <= q[4]
Applies(rule, c, r) == \E i \in 1..Len(rule.rng) : InRect(c, r, rule.rng[i])
Corners(rule) == {<<rule.rng[i][1], rule.rng[i][2]>> : i \in 1..Len(rule.rng)}
Dominating(rule) == {p \in Corners(rule) : \A q \in Corners(rule) : p[1] <= q[1] /\ p[2] <= q[2]}
Disjoint(p, q) == p[3] < q[1] \/ q[3] < p[1] \/ p[4] < q[2] \/ q[4] < p[2]

Worlds == [org : {"first", "dom"}, pol : {"wrap", "ref"}]
OriginOf(rule, w) == IF w.org = "first" THEN <<rule.rng[1][1], rule.rng[1][2]>>
                     ELSE CHOOSE p \in Dominating(rule) : TRUE

\* the formula of an expression rule as it reads for cell (c, r)
Translated(rule, c, r, w) ==
  LET o == OriginOf(rule, w) IN ShiftF(rule.f, c - o[1], r - o[2])

RefVal(g, home, x) == CellVal(g, IF x.sh = "" THEN home ELSE x.sh, x.col, x.row)

RuleTruth(rule, home, c, r, g, w) ==
  CASE rule.ty = "scale"  -> "F"
    [] rule.ty = "cellIs" -> Truth3(GT(CellVal(g, home, c, r), rule.f.m))
    [] OTHER ->
       LET tf == Translated(rule, c, r, w) IN
       IF w.pol = "ref" /\ \E x \in RefsOf(tf) : ~OnSheet(x) THEN "F"
       ELSE Truth3(EvalF(tf, RefVal(g, home, WrapRef(tf.a)), RefVal(g, home, WrapRef(tf.b))))

\* the rules that apply to a cell, by priority
AppSet(rules, c, r) == {i \in 1..Len(rules) : Applies(rules[i], c, r)}
RECURSIVE SortP(_, _)
SortP(rules, S) ==
  IF S = {} THEN <<>>
  ELSE LET i == CHOOSE x \in S : \A y \in S : rules[x].prio <= rules[y].prio
       IN <<i>> \o SortP(rules, S \ {i})
Sorted(rules, c, r) == SortP(rules, AppSet(rules, c, r))

\* walk down the priorities: take the satisfied ones, stop after a satisfied stop rule
RECURSIVE Walk(_, _, _, _)
Walk(rules, idx, res, i) ==
  IF i > Len(idx) THEN <<>>
  ELSE IF ~res[i] THEN Walk(rules, idx, res, i + 1)
  ELSE IF rules[idx[i]].stop THEN <<idx[i]>>
  ELSE <<idx[i]>> \o Walk(rules, idx, res, i + 1)

Truths(rules, idx, home, c, r, g, w) ==
  [i \in 1..Len(idx) |-> RuleTruth(rules[idx[i]], home, c, r, g, w)]
Resolutions(tr) ==
  {res \in [1..Len(tr) -> BOOLEAN] :
     \A i \in 1..Len(tr) : (tr[i] = "T" => res[i]) /\ (tr[i] = "F" => ~res[i])}

\* answers as sequences of rule indices / of formats
AllowedIdx(rules, home, c, r, g) ==
  LET idx == Sorted(rules, c, r) IN
  IF idx = << >> THEN {<< >>}          \* no rule applies: nothing to show
  ELSE
  UNION {{Walk(rules, idx, res, 1) : res \in Resolutions(Truths(rules, idx, home, c, r, g, w))}
         : w \in Worlds}
Fmts(rules, a) == [i \in 1..Len(a) |-> rules[a[i]].fmt]
Allowed(rules, home, c, r, g) == {Fmts(rules, a) : a \in AllowedIdx(rules, home, c, r, g)}

RulesOf(s, sh) == IF sh = "S" THEN Scenarios[s].rules ELSE Scenarios[s].trules

---------------------------------------------------------------------------
(* queries: [k, sh, rect, items]  k = "cell" (rect is the cell), "rect",   *)
(* "list" (items index Queries; cells and rectangles only)                 *)
\* A is the table of the answers of all cells: <<sheet, c, r>> -> AllowedIdx(..)
AllCells == {<<"S", p[1], p[2]>> : p \in (1..DC) \X (1..H)} \cup {<<"T", p[1], p[2]>> : p \in Grid}
Answers(s, g) == [t \in AllCells |-> AllowedIdx(RulesOf(s, t[1]), t[1], t[2], t[3], g)]

SheetOf(q) == IF q.sh = "" THEN Active ELSE q.sh
CellExp(s, A, sh, c, r) == {Fmts(RulesOf(s, sh), a) : a \in A[<<sh, c, r>>]}
RectExp(s, A, sh, q) ==
  [i \in 1..(q[4] - q[2] + 1) |->
     [j \in 1..(q[3] - q[1] + 1) |-> CellExp(s, A, sh, q[1] + j - 1, q[2] + i - 1)]]
OneExp(s, A, q) == IF q.k = "cell" THEN CellExp(s, A, SheetOf(q), q.rect[1], q.rect[2])
                   ELSE RectExp(s, A, SheetOf(q), q.rect)
Expected(s, A, q) == IF q.k = "list"
                     THEN [i \in 1..Len(q.items) |-> OneExp(s, A, Queries[q.items[i]])]
                     ELSE OneExp(s, A, q)

---------------------------------------------------------------------------
(* which value cells of S an answer can depend on                          *)
ReadCells(rule, home, c, r) ==
  IF rule.ty = "scale" THEN {}
  ELSE IF rule.ty = "cellIs"
  THEN IF home # "S" THEN {} ELSE IF c = DC THEN {<<1, r>>} ELSE {<<c, r>>} \cap Grid
  ELSE UNION {UNION {LET y  == WrapRef(x)
                         sh == IF y.sh = "" THEN home ELSE y.sh
                     IN IF sh # "S" THEN {}
                        ELSE IF y.col = DC /\ y.row \in 1..H THEN {<<1, y.row>>}
                        ELSE {<<y.col, y.row>>} \cap Grid
                     : x \in RefsOf(Translated(rule, c, r, w))} : w \in Worlds}
ReadsOf(s, sh, c, r) ==
  LET rules == RulesOf(s, sh)
  IN UNION {ReadCells(rules[i], sh, c, r) : i \in AppSet(rules, c, r)}
RuleCells(rule) == {p \in (1..DC) \X (1..H) : Applies(rule, p[1], p[2])}
Footprint(s) ==
  UNION {UNION {UNION {ReadCells(RulesOf(s, sh)[i], sh, p[1], p[2]) : p \in RuleCells(RulesOf(s, sh)[i])}
                : i \in 1..Len(RulesOf(s, sh))} : sh \in {"S", "T"}}
\* SetValue touches the cells some rule reads, and one that no rule reads
Settable(s) == LET fp == Footprint(s) IN
               IF fp = Grid THEN fp
               ELSE fp \cup {CHOOSE p \in Grid \ fp : \A q \in Grid \ fp :
                                p[2] < q[2] \/ (p[2] = q[2] /\ p[1] <= q[1])}

---------------------------------------------------------------------------
(* the machine                                                             *)
NoAct == [k |-> "init", c |-> 0, r |-> 0, v |-> Z, old |-> Z, q |-> 0]
Changed(g) == Cardinality({p \in Grid : g[p] # InitGrid[p]})

Init == /\ sc \in 1..Len(Scenarios)
        /\ vals = InitGrid
        /\ last = NoAct
        /\ stb = Settable(sc)
        /\ ans = Answers(sc, vals)

SetValue(p, v) ==
  /\ p \in stb
  /\ v # vals[p]
  /\ Changed([vals EXCEPT ![p] = v]) <= MaxChanged
  /\ vals' = [vals EXCEPT ![p] = v]
  /\ last' = [k |-> "set", c |-> p[1], r |-> p[2], v |-> v, old |-> vals[p], q |-> 0]
  /\ ans' = Answers(sc, vals')
  /\ UNCHANGED <<sc, stb>>

Query(i) ==
  /\ last' = [k |-> "query", c |-> 0, r |-> 0, v |-> Z, old |-> Z, q |-> i]
  /\ UNCHANGED <<sc, vals, stb, ans>>

Next == \/ \E p \in Grid, v \in SetPool : SetValue(p, v)
        \/ \E i \in 1..Len(Queries) : Query(i)
Spec == Init /\ [][Next]_vars

---------------------------------------------------------------------------
(* well-formedness of the constants, shape of the state                    *)
RefOK(x) == /\ x.sh \in {"", "S", "T"} /\ x.ca \in BOOLEAN /\ x.ra \in BOOLEAN
            /\ x.col \in 1..MaxCol /\ x.row \in 1..MaxRow
RuleOK(rule) ==
  /\ rule.ty \in {"expression", "cellIs", "scale"}
  /\ Len(rule.rng) >= 1
  /\ \A i \in 1..Len(rule.rng) :
       LET q == rule.rng[i] IN 1 <= q[1] /\ q[1] <= q[3] /\ q[3] <= DC
                               /\ 1 <= q[2] /\ q[2] <= q[4] /\ q[4] <= H
  /\ \A i, j \in 1..Len(rule.rng) : i < j => Disjoint(rule.rng[i], rule.rng[j])
  /\ Dominating(rule) # {}
  /\ rule.f.k \in Kinds /\ RefOK(rule.f.a) /\ RefOK(rule.f.b)
  /\ rule.ty = "cellIs" => rule.f.k = "gt"
  /\ rule.prio \in 1..99 /\ rule.stop \in BOOLEAN /\ rule.fmt \in 1..99
RulesOK(rules) == /\ \A i \in 1..Len(rules) : RuleOK(rules[i])
                  /\ \A i, j \in 1..Len(rules) : i # j => rules[i].prio # rules[j].prio
QueryOK(q) == /\ q.k \in {"cell", "rect", "list"} /\ q.sh \in {"", "S", "T"}
              /\ q.k = "list" => \A i \in 1..Len(q.items) : Queries[q.items[i]].k # "list"
              /\ q.k = "cell" => q.rect[1] = q.rect[3] /\ q.rect[2] = q.rect[4]
TypeOK == /\ sc \in 1..Len(Scenarios)
          /\ RulesOK(Scenarios[sc].rules) /\ RulesOK(Scenarios[sc].trules)
          /\ \A i \in 1..Len(Queries) : QueryOK(Queries[i])
          /\ DOMAIN vals = Grid /\ DOMAIN ans = AllCells
          /\ last.k \in {"init", "set", "query"}
          /\ Changed(vals) <= MaxChanged

---------------------------------------------------------------------------
(* laws, checked on the definitions                                        *)
\* the cells some rule applies to (the others have the empty answer by definition)
Ruled(s) == {t \in AllCells : AppSet(RulesOf(s, t[1]), t[2], t[3]) # {}}
PosIn(s, x) == CHOOSE i \in 1..Len(s) : s[i] = x
Range(s) == {s[i] : i \in 1..Len(s)}

\* an answer lists rules that apply to the cell, each once, in priority order
Subsequence ==
  \A t \in Ruled(sc) :
    LET rules == RulesOf(sc, t[1])
        idx == Sorted(rules, t[2], t[3])
    IN \A a \in ans[t] :
         /\ Range(a) \subseteq AppSet(rules, t[2], t[3])
         /\ \A i, j \in 1..Len(a) : i < j =>
              /\ PosIn(idx, a[i]) < PosIn(idx, a[j])
              /\ rules[a[i]].prio < rules[a[j]].prio

\* only the last rule of an answer can have stop-if-true
StopEnds ==
  \A t \in Ruled(sc) :
    LET rules == RulesOf(sc, t[1])
    IN \A a \in ans[t] :
         \A i \in 1..Len(a) : rules[a[i]].stop => i = Len(a)

\* the walk, said without recursion: a rule is in the answer iff it is
\* satisfied and no satisfied stop rule has a better priority
WalkMeaning ==
  \A t \in Ruled(sc) : \A w \in Worlds :
    LET rules == RulesOf(sc, t[1])
        idx == Sorted(rules, t[2], t[3])
    IN \A res \in Resolutions(Truths(rules, idx, t[1], t[2], t[3], vals, w)) :
         LET a == Walk(rules, idx, res, 1) IN
         \A i \in 1..Len(idx) :
           (idx[i] \in Range(a)) <=>
             (res[i] /\ \A j \in 1..(i - 1) : ~(res[j] /\ rules[idx[j]].stop))

\* a rule all of whose reference parts are absolute is satisfied by every
\* cell of its range or by none
AllAbs(f) == \A x \in RefsOf(f) : x.ca /\ x.ra
AbsConst ==
  \A sh \in {"S", "T"} :
    LET rules == RulesOf(sc, sh) IN
    \A i \in 1..Len(rules) :
      (rules[i].ty = "expression" /\ AllAbs(rules[i].f)) =>
        \A w \in Worlds : \A p, q \in RuleCells(rules[i]) :
          RuleTruth(rules[i], sh, p[1], p[2], vals, w) = RuleTruth(rules[i], sh, q[1], q[2], vals, w)

\* a rule all of whose parts are relative reads, from every cell, the cells
\* at the offsets it reads from its origin
AllRel(f) == \A x \in RefsOf(f) : ~x.ca /\ ~x.ra
Offsets(f, c, r) == {<<x.sh, x.col - c, x.row - r>> : x \in RefsOf(f)}
RelUniform ==
  last.k = "init" => \A sh \in {"S", "T"} :
    LET rules == RulesOf(sc, sh) IN
    \A i \in 1..Len(rules) :
      (rules[i].ty = "expression" /\ AllRel(rules[i].f)) =>
        \A w \in Worlds : \A p \in RuleCells(rules[i]) :
          LET o == OriginOf(rules[i], w) IN
          Offsets(Translated(rules[i], p[1], p[2], w), p[1], p[2]) = Offsets(rules[i].f, o[1], o[2])

\* at its origin a rule reads as written
AtOrigin ==
  last.k = "init" => \A sh \in {"S", "T"} :
    LET rules == RulesOf(sc, sh) IN
    \A i \in 1..Len(rules) : \A w \in Worlds :
      LET o == OriginOf(rules[i], w) IN Translated(rules[i], o[1], o[2], w) = rules[i].f

\* translation composes, also with wrapping: moving by d1 then by d2 is
\* moving by d1 + d2
Moves == (-2..2) \X (-2..2)
Compose ==
  last.k = "init" => \A sh \in {"S", "T"} :
    LET rules == RulesOf(sc, sh) IN
    \A i \in 1..Len(rules) : \A x \in RefsOf(rules[i].f) : \A d1, d2 \in Moves :
      /\ Shift(Shift(x, d1[1], d1[2]), d2[1], d2[2]) = Shift(x, d1[1] + d2[1], d1[2] + d2[2])
      /\ WrapRef(Shift(WrapRef(Shift(x, d1[1], d1[2])), d2[1], d2[2]))
           = WrapRef(Shift(x, d1[1] + d2[1], d1[2] + d2[2]))

\* the order of the rules in the file does not matter, the priorities do
RECURSIVE Rev(_)
Rev(s) == IF s = <<>> THEN <<>> ELSE Rev(Tail(s)) \o <<Head(s)>>
FileOrder ==
  \A t \in Ruled(sc) :
    Allowed(Rev(RulesOf(sc, t[1])), t[1], t[2], t[3], vals)
      = {Fmts(RulesOf(sc, t[1]), a) : a \in ans[t]}

\* without stop-if-true and without anything unjudged the answer is exactly
\* the satisfied rules
NoStopAll ==
  \A t \in Ruled(sc) : \A w \in Worlds :
    LET rules == RulesOf(sc, t[1])
        idx == Sorted(rules, t[2], t[3])
        tr == Truths(rules, idx, t[1], t[2], t[3], vals, w)
    IN (\A i \in 1..Len(idx) : ~rules[idx[i]].stop /\ tr[i] # "U") =>
         \A res \in Resolutions(tr) :
           Range(Walk(rules, idx, res, 1)) = {idx[i] : i \in {j \in 1..Len(idx) : tr[j] = "T"}}

\* an answer depends only on the cells its translated formulas read:
\* a SetValue elsewhere leaves it as it was  (action property)
Locality ==
  [][last'.k = "set" =>
       \A t \in Ruled(sc) :
         <<last'.c, last'.r>> \notin ReadsOf(sc, t[1], t[2], t[3]) =>
           ans'[t] = ans[t]]_vars

---------------------------------------------------------------------------
(* export                                                                  *)
View == <<sc, vals>>
GridSeq(g) == [i \in 1..(W * H) |-> g[<<((i - 1) % W) + 1, ((i - 1) \div W) + 1>>]]
RECURSIVE SetSeq(_)
SetSeq(X) == IF X = {} THEN <<>>
             ELSE LET p == CHOOSE x \in X : \A y \in X :
                             x[2] < y[2] \/ (x[2] = y[2] /\ x[1] <= y[1])
                  IN <<p>> \o SetSeq(X \ {p})

\* invariant: the scenario, once (a state is first reached by Init or SetValue)
PrintInit ==
  last.k = "init" =>
    PrintT(ToJson([sc |-> sc, k |-> "init", grid |-> GridSeq(vals),
                   scenario |-> Scenarios[sc], settable |-> SetSeq(stb),
                   footprint |-> SetSeq(Footprint(sc)), pool |-> SetPool,
                   maxchanged |-> MaxChanged, queries |-> Queries, w |-> W, h |-> H]))

\* action constraint: every transition; grid = the values BEFORE the step
PrintEdge ==
  PrintT(ToJson(
    IF last'.k = "set"
    THEN [sc |-> sc, k |-> "set", grid |-> GridSeq(vals),
          c |-> last'.c, r |-> last'.r, v |-> last'.v, old |-> last'.old]
    ELSE [sc |-> sc, k |-> "query", grid |-> GridSeq(vals), q |-> last'.q,
          exp |-> Expected(sc, ans, Queries[last'.q])]))
=============================================================================
