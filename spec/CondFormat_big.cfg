CONSTANTS
  W = 4
  H = 4
  Scenarios <- MCScenarios
  InitGrid <- MCInitGrid
  SetPool <- MCSetPoolBig
  MaxChanged = 1
  Queries <- MCQueries
SPECIFICATION Spec
INVARIANT TypeOK
INVARIANT Subsequence
INVARIANT StopEnds
INVARIANT WalkMeaning
INVARIANT AbsConst
INVARIANT RelUniform
INVARIANT AtOrigin
INVARIANT Compose
INVARIANT FileOrder
INVARIANT NoStopAll
PROPERTY Locality
INVARIANT PrintInit
ACTION_CONSTRAINT PrintEdge
VIEW View
