CONSTANTS
  W = 4
  H = 4
  Scenarios <- MCScenariosTwo
  InitGrid <- MCInitGrid
  SetPool <- MCSetPoolTwo
  MaxChanged = 2
  Queries <- MCQueries
SPECIFICATION Spec
INVARIANT TypeOK
INVARIANT Subsequence
INVARIANT StopEnds
INVARIANT WalkMeaning
INVARIANT AbsConst
INVARIANT RelUniform
INVARIANT AtOrigin
INVARIANT Compose
INVARIANT FileOrder
INVARIANT NoStopAll
PROPERTY Locality
INVARIANT PrintInit
ACTION_CONSTRAINT PrintEdge
VIEW View
