------------------------------ MODULE Criteria ------------------------------
(***************************************************************************)
(* C15 -- COUNTIF(S), SUMIF(S), AVERAGEIF(S), MAXIFS, MINIFS: which cells  *)
(* of a range a criterion selects, and what is aggregated over them.       *)
(*                                                                         *)
(* A criterion is <<op, operand>>: op is "" (none), "=", "<>", "<", "<=",  *)
(* ">", ">=" and the operand is a number <<"N", k>> or a text <<"S", cs>>   *)
(* (cs a sequence of characters, possibly empty, possibly with the         *)
(* wildcards ? and * and the escapes ~? ~* ~~).  On the sheet it is the    *)
(* number itself or the string op \o operand; a text operand that looks    *)
(* like a number IS a numeric criterion, so text operands here never do.   *)
(* A criterion read from a blank cell is <<"", Blank>>: Excel's COUNTIFS   *)
(* page: "If the criteria argument is a reference to an empty cell, the    *)
(* COUNTIFS function treats the empty cell as a 0 value."                  *)
(*                                                                         *)
(* Matches(cell, crit) is a RELATION: the set of truth values the property *)
(* statement allows.  It is {TRUE} or {FALSE} where the statement (and     *)
(* Excel's documentation) fixes the answer and BOOLEAN where it does not:  *)
(*   - an error cell against any criterion;                                *)
(*   - a logical cell against a numeric criterion or an ordering (< <= >   *)
(*     >=) criterion;                                                      *)
(*   - a text cell that looks like a number against a numeric criterion or *)
(*     a text ordering criterion;                                          *)
(*   - an empty-text cell against "", "=", "<>" or a text ordering;        *)
(*   - text ordering when either side is not purely alphabetic (Excel's    *)
(*     collation of punctuation and digits is not code-point order).       *)
(* These cells still take part in "never fails" and in the laws; whatever   *)
(* the answer is, "=x" and "<>x" give opposite ones (Complementary).       *)
(*                                                                         *)
(* The enumerator machine appends cells to the range and criteria to the   *)
(* criteria list.  Criterion j applies to the range rotated by j-1 cells,  *)
(* so several criteria ranges of the same shape come from one sequence.    *)
(***************************************************************************)
EXTENDS CellValues, TLC, Json

CONSTANTS CellPool,      \* cell values
          CritPool,      \* criteria offered as first criterion
          Crit2Pool,     \* criteria offered as second/third criterion
          MaxCells,      \* longest range
          MaxCritsFor,   \* [1..MaxCells -> 0..3] criteria allowed at that length
          FreeMax        \* outcomes are enumerated when at most this many
                         \* positions are unconstrained

VARIABLES rng,           \* the (first) criteria range, row-major
          crits          \* the criteria, in argument order
vars == <<rng, crits>>

--------------------------------------------------------------------------
(* characters *)
LowerSeq == <<"a","b","c","d","e","f","g","h","i","j","k","l","m",
              "n","o","p","q","r","s","t","u","v","w","x","y","z">>
UpperSeq == <<"A","B","C","D","E","F","G","H","I","J","K","L","M",
              "N","O","P","Q","R","S","T","U","V","W","X","Y","Z">>
Digits   == {"0","1","2","3","4","5","6","7","8","9"}

LineBreak == "\n"                  \* Alt+Enter in a cell: a character like any other
Punct    == {".", "?", "*", "~", "-", " ", "_", LineBreak}
Chars    == {LowerSeq[i] : i \in 1..26} \cup {UpperSeq[i] : i \in 1..26}
            \cup Digits \cup Punct
\* constant tables (TLC evaluates them once)
IsUpper(c) == \E i \in 1..26 : UpperSeq[i] = c
LowerMap == [c \in Chars |-> IF IsUpper(c)
                             THEN LowerSeq[CHOOSE i \in 1..26 : UpperSeq[i] = c] ELSE c]
UpperMap == [c \in Chars |-> IF \E i \in 1..26 : LowerSeq[i] = c
                             THEN UpperSeq[CHOOSE i \in 1..26 : LowerSeq[i] = c] ELSE c]
OrdMap   == [c \in Chars |-> IF \E i \in 1..26 : LowerSeq[i] = c
                             THEN CHOOSE i \in 1..26 : LowerSeq[i] = c ELSE 0]
Lower(c)   == LowerMap[c]
IsLower(c) == OrdMap[c] > 0
Ord(c)     == OrdMap[c]                       \* c a lower-case letter
LowerT(t)  == [i \in DOMAIN t |-> Lower(t[i])]
IsAlphaT(t) == t # <<>> /\ \A i \in DOMAIN t : IsLower(Lower(t[i]))
\* text that a coercion would read as a number: digits with optional sign/point
NumericLooking(t) ==
  /\ \E i \in DOMAIN t : t[i] \in Digits
  /\ \A i \in DOMAIN t : t[i] \in Digits \cup {".", "-"}
HasWildcard(t) == \E i \in DOMAIN t : t[i] \in {"?", "*", "~"}

--------------------------------------------------------------------------
(* wildcard patterns: ? = any one character, * = any sequence (also empty), *)
(* ~? ~* ~~ = the literal character; the whole cell text must match        *)
RECURSIVE Tokens(_)
Tokens(p) ==
  IF p = <<>> THEN <<>>
  ELSE IF p[1] = "~" /\ Len(p) >= 2 /\ p[2] \in {"?", "*", "~"}
       THEN << <<"L", p[2]>> >> \o Tokens(SubSeq(p, 3, Len(p)))
  ELSE IF p[1] = "?" THEN << <<"Q">> >> \o Tokens(Tail(p))
  ELSE IF p[1] = "*" THEN << <<"A">> >> \o Tokens(Tail(p))
  ELSE << <<"L", p[1]>> >> \o Tokens(Tail(p))

RECURSIVE WMatch(_, _)
WMatch(toks, t) ==
  IF toks = <<>> THEN t = <<>>
  ELSE LET h == toks[1] IN
       IF h[1] = "A"
       THEN WMatch(Tail(toks), t) \/ (t # <<>> /\ WMatch(toks, Tail(t)))
       ELSE IF t = <<>> THEN FALSE
       ELSE IF h[1] = "Q" THEN WMatch(Tail(toks), Tail(t))
       ELSE h[2] = t[1] /\ WMatch(Tail(toks), Tail(t))

\* case-insensitive match of a cell text against a pattern
TextEq(pattern, t) == WMatch(Tokens(LowerT(pattern)), LowerT(t))

RECURSIVE LexLess(_, _)
\* alphabetical order of two lower-case purely alphabetic texts
LexLess(a, b) ==
  IF b = <<>> THEN FALSE
  ELSE IF a = <<>> THEN TRUE
  ELSE IF a[1] = b[1] THEN LexLess(Tail(a), Tail(b))
  ELSE Ord(a[1]) < Ord(b[1])

Ordering == {"<", "<=", ">", ">="}
TextCmp(op, a, b) ==
  CASE op = "<"  -> LexLess(a, b)
    [] op = "<=" -> ~LexLess(b, a)
    [] op = ">"  -> LexLess(b, a)
    [] op = ">=" -> ~LexLess(a, b)
NumCmp(op, x, k) ==
  CASE op \in {"", "="} -> x = k
    [] op = "<>" -> x # k
    [] op = "<"  -> x < k
    [] op = "<=" -> x <= k
    [] op = ">"  -> x > k
    [] op = ">=" -> x >= k

--------------------------------------------------------------------------
(* the relation *)

\* numeric criterion: compares numerically; text never satisfies < <= > >=
\* nor =, always satisfies <>; so does a blank cell
NumCrit(c, op, k) ==
  CASE IsNum(c)   -> {NumCmp(op, c[2], k)}
    [] IsBlank(c) -> {op = "<>"}
    [] IsTxt(c)   -> IF NumericLooking(c[2]) THEN BOOLEAN ELSE {op = "<>"}
    [] IsBool(c)  -> BOOLEAN

\* "" and "=" select blank cells, "<>" selects non-blank cells
EmptyCrit(c, op) ==
  CASE IsBlank(c) -> {op # "<>"}
    [] IsTxt(c) /\ c[2] = <<>> -> BOOLEAN
    [] OTHER -> {op = "<>"}

\* text criterion
TextCrit(c, op, p) ==
  IF op \in Ordering
  THEN CASE IsTxt(c) -> IF IsAlphaT(c[2]) /\ IsAlphaT(p)
                        THEN {TextCmp(op, LowerT(c[2]), LowerT(p))}
                        ELSE BOOLEAN
         [] IsBool(c) -> BOOLEAN
         [] OTHER -> {FALSE}                     \* numbers, blanks
  ELSE CASE IsTxt(c) -> {TextEq(p, c[2]) <=> (op # "<>")}
         [] OTHER -> {op = "<>"}                 \* numbers, logicals, blanks

Matches(c, cr) ==
  LET op == cr[1]  v == cr[2] IN
  IF IsErr(c) THEN BOOLEAN
  ELSE IF IsBlank(v) THEN NumCrit(c, op, 0)      \* read from a blank cell: 0
  ELSE IF IsNum(v) THEN NumCrit(c, op, v[2])
  ELSE IF v[2] = <<>> THEN EmptyCrit(c, op)
  ELSE TextCrit(c, op, v[2])

Fixed(c, cr) == Cardinality(Matches(c, cr)) = 1

\* "=x" and "<>x" partition the range: a cell satisfies exactly one of them,
\* also where the statement leaves open which one (a logical or a text that
\* looks like a number against a numeric x).  Not demanded of error cells
\* (open whether they satisfy anything) and of empty-text cells against the
\* empty criteria (in Excel a cell holding ="" satisfies both "" and "<>").
Flip(cr) == <<IF cr[1] = "<>" THEN "=" ELSE "<>", cr[2]>>
Complementary(c, cr) ==
  /\ cr[1] \in {"", "=", "<>"}
  /\ ~IsErr(c)
  /\ ~(IsTxt(c) /\ c[2] = <<>> /\ IsTxt(cr[2]) /\ cr[2][2] = <<>>)

--------------------------------------------------------------------------
(* selection *)
N == Len(rng)
RotBy(q, r) == [i \in 1..Len(q) |-> q[((i - 1 + r) % Len(q)) + 1]]
\* the cell that criterion j looks at for position i
CellAt(j, i) == rng[((i + j - 2) % Len(rng)) + 1]
\* the (range, criterion) pairs of the ...IFS call
Pairs == [j \in 1..Len(crits) |-> <<RotBy(rng, j - 1), crits[j]>>]

\* ...IF form: the positions of one range q that one criterion may select
\* (TRUE is an allowed answer) and must select (TRUE is the only answer)
MayIF(q, cr)  == {i \in DOMAIN q : TRUE \in Matches(q[i], cr)}
MustIF(q, cr) == {i \in DOMAIN q : Matches(q[i], cr) = {TRUE}}

\* ...IFS form: a position is selected when every pair selects it
RECURSIVE MayIFS(_, _), MustIFS(_, _)
MayIFS(ps, n)  == IF ps = <<>> THEN 1..n
                  ELSE MayIF(ps[1][1], ps[1][2]) \cap MayIFS(Tail(ps), n)
MustIFS(ps, n) == IF ps = <<>> THEN 1..n
                  ELSE MustIF(ps[1][1], ps[1][2]) \cap MustIFS(Tail(ps), n)

May  == MayIFS(Pairs, N)
Must == MustIFS(Pairs, N)
Free == May \ Must
SelSets == {Must \cup X : X \in SUBSET Free}

--------------------------------------------------------------------------
(* consumers *)
Weight(i) == 2 ^ (i - 1)                 \* one-hot range: recovers positions
Mask(sel) == SumSet([i \in 1..N |-> Weight(i)], sel, N)
\* a purely numeric data range (in halves): -2.5 .. 2.5, with repeats and 0
DataK(i) == ((i * 7) % 11) - 5
Data == [i \in 1..N |-> Num(DataK(i))]

RECURSIVE PickSel(_, _, _)
PickSel(q, sel, i) == IF i > Len(q) THEN <<>>
                      ELSE (IF i \in sel THEN <<q[i]>> ELSE <<>>) \o PickSel(q, sel, i + 1)

\* aggregate of the selected cells q: an error value among them is the
\* result (any of them: the statement does not say which); otherwise the
\* numeric cells are aggregated; whether a selected logical counts as 1/0
\* (Microsoft's SUMIFS page) or is skipped (what Excel does) is left open
AggSel(fn, q) ==
  IF HasErr(q) THEN ErrSet(q)
  ELSE { (CASE fn = "SUM" -> VSum(q, cb) [] fn = "AVERAGE" -> VAvg(q, cb)
            [] fn = "MAX" -> VMax(q, cb) [] fn = "MIN" -> VMin(q, cb)) : cb \in BOOLEAN }

\* over the numeric data range (every selected cell is a number)
DataOut(sel) ==
  LET d == PickSel(Data, sel, 1)
  IN  [count |-> Cardinality(sel),
       dsum  |-> {VSum(d, FALSE)},  davg |-> {VAvg(d, FALSE)},
       dmax  |-> {VMax(d, FALSE)},  dmin |-> {VMin(d, FALSE)}]
\* over the criteria range itself (SUMIF(range, criterion) and friends)
SelfOut(sel) ==
  LET o == PickSel(rng, sel, 1)
  IN  [mask  |-> Mask(sel),
       osum  |-> AggSel("SUM", o),  oavg |-> AggSel("AVERAGE", o),
       omax  |-> AggSel("MAX", o),  omin |-> AggSel("MIN", o)]
Outcome(sel) == DataOut(sel) @@ SelfOut(sel)

\* over a third range of mixed cells (SUMIF(range, criterion, sum_range) with
\* a sum_range that is neither numeric nor the criteria range): the cells of
\* MixSeq in order, starting o cells into it.  A selected blank, text or
\* (possibly) logical adds nothing; SUMIF(range, crit, sum_range) is
\* SUMIFS(sum_range, range, crit) by definition, whatever sum_range holds.
MixSeq == <<Blank, Num(3), Txt(<<"x">>), Bool(1), Num(-4), Txt(<<"7">>), Err("#N/A")>>
Mixed(o) == [i \in 1..N |-> MixSeq[((i - 1 + o) % Len(MixSeq)) + 1]]
\* every starting point for ranges of one or two cells, one for longer ones
Offsets == IF N <= 2 THEN 0..(Len(MixSeq) - 1) ELSE {(N + Len(crits)) % Len(MixSeq)}
MixOut(sel, o) ==
  LET q == PickSel(Mixed(o), sel, 1)
  IN  [mask |-> Mask(sel),
       msum |-> AggSel("SUM", q),  mavg |-> AggSel("AVERAGE", q),
       mmax |-> AggSel("MAX", q),  mmin |-> AggSel("MIN", q)]

Enumerable == Cardinality(Free) <= FreeMax
Outcomes == IF Enumerable THEN {Outcome(sel) : sel \in SelSets} ELSE {}
MixOutcomes(o) == IF Enumerable THEN {MixOut(sel, o) : sel \in SelSets} ELSE {}

--------------------------------------------------------------------------
(* the enumerator machine *)
Init == rng = <<>> /\ crits = <<>>

AppendCell(x) ==
  /\ Len(rng) < MaxCells
  /\ Len(crits) <= MaxCritsFor[Len(rng) + 1]
  /\ rng' = Append(rng, x)
  /\ crits' = crits

AddCrit(c) ==
  /\ Len(rng) >= 1
  /\ Len(crits) < MaxCritsFor[Len(rng)]
  /\ crits' = Append(crits, c)
  /\ rng' = rng

Next == \/ \E x \in CellPool : AppendCell(x)
        \/ \E c \in (IF crits = <<>> THEN CritPool ELSE Crit2Pool) : AddCrit(c)
Spec == Init /\ [][Next]_vars

\* the criteria pools stay inside the grammar the relation is defined for: a
\* text operand never looks like a number (it would be a numeric criterion),
\* ordering operators never carry wildcards (Excel's reading is not
\* documented), ~ only escapes ? * ~, operators are the seven known ones, a
\* blank cell is a criterion by itself (no operator in front of it)
ASSUME \A cr \in CritPool \cup Crit2Pool :
         /\ cr[1] \in {"", "=", "<>"} \cup Ordering
         /\ IsNum(cr[2]) \/ IsTxt(cr[2]) \/ (IsBlank(cr[2]) /\ cr[1] = "")
         /\ IsTxt(cr[2]) =>
              LET t == cr[2][2] IN
              /\ ~NumericLooking(t)
              /\ cr[1] \in Ordering => (~HasWildcard(t) /\ t # <<>>)
              /\ \A i \in DOMAIN t : t[i] = "~" =>
                    \/ (i < Len(t) /\ t[i + 1] \in {"?", "*", "~"})
                    \/ (i > 1 /\ t[i - 1] = "~")

TypeOK == /\ rng \in Seq(CellPool) /\ Len(rng) <= MaxCells
          /\ crits \in Seq(CritPool \cup Crit2Pool) /\ Len(crits) <= 3

--------------------------------------------------------------------------
(* laws *)

\* cells of any type never make the functions fail: the relation is total
\* and every consumer has at least one allowed result
Total ==
  /\ \A i \in 1..N : \A j \in 1..Len(crits) : Matches(CellAt(j, i), crits[j]) # {}
  /\ Must \subseteq May
  /\ SelSets # {}

\* the one-criterion ...IFS form is the ...IF form
OneCriterion ==
  Len(crits) = 1 => /\ May = MayIF(rng, crits[1])
                    /\ Must = MustIF(rng, crits[1])

\* criteria commute (adjacent transpositions of the (range, criterion) pairs)
SwapPairs(ps, j) == [ps EXCEPT ![j] = ps[j + 1], ![j + 1] = ps[j]]
Commute ==
  \A j \in 1..(Len(crits) - 1) :
     /\ MayIFS(SwapPairs(Pairs, j), N) = May
     /\ MustIFS(SwapPairs(Pairs, j), N) = Must

\* one more criterion can only narrow the selection: what the pairs select
\* is selected by all but the last of them (every step AddCrit of the
\* machine, stated on the state it leads to)
Narrowing ==
  crits # <<>> =>
  LET front == SubSeq(Pairs, 1, Len(crits) - 1)
  IN  /\ May \subseteq MayIFS(front, N)
      /\ Must \subseteq MustIFS(front, N)

\* "=x" and "<>x" partition the range (over the cells the statement fixes)
\* the relation allows an answer to "=x" exactly when it allows the opposite
\* answer to "<>x"
Partition ==
  \A j \in 1..Len(crits) : crits[j][1] \in {"", "=", "<>"} =>
     \A i \in 1..N :
        LET c == CellAt(j, i)
            a == Matches(c, crits[j])  b == Matches(c, Flip(crits[j]))
        IN  /\ Fixed(c, crits[j]) <=> Fixed(c, Flip(crits[j]))
            /\ Fixed(c, crits[j]) => a # b
            /\ Fixed(c, crits[j]) => Complementary(c, crits[j])
            /\ Complementary(c, crits[j]) => b = {~x : x \in a}
\* a criterion read from a blank cell is the criterion 0
BlankIsZero ==
  \A i \in 1..N : \A op \in {"", "=", "<>"} \cup Ordering :
     Matches(rng[i], <<op, Blank>>) = Matches(rng[i], <<op, Num(0)>>)
\* a line break in a cell is one character: "?" stands for it, "*" spans it
LineBreakLaw ==
  \A i \in 1..N :
     (/\ IsTxt(rng[i]) /\ ~HasWildcard(rng[i][2])
      /\ \E k \in DOMAIN rng[i][2] : rng[i][2][k] = LineBreak) =>
     LET t == rng[i][2]
         q == [k \in DOMAIN t |-> IF t[k] = LineBreak THEN "?" ELSE t[k]]
     IN  /\ Matches(rng[i], <<"", Txt(t)>>) = {TRUE}
         /\ Matches(rng[i], <<"<>", Txt(t)>>) = {FALSE}
         /\ Matches(rng[i], <<"", Txt(q)>>) = {TRUE}
         /\ Matches(rng[i], <<"", Txt(<<"*", LineBreak, "*">>)>>) = {TRUE}
\* no operator means "="
NoOpIsEq ==
  \A j \in 1..Len(crits) : crits[j][1] = "" =>
     \A i \in 1..N : Matches(CellAt(j, i), <<"=", crits[j][2]>>)
                     = Matches(CellAt(j, i), crits[j])

\* numeric criteria: text never satisfies < <= > >= or =, always satisfies <>
TextVsNumber ==
  \A j \in 1..Len(crits) : IsNum(crits[j][2]) =>
     \A i \in 1..N :
        LET c == CellAt(j, i) IN
        (IsTxt(c) /\ ~NumericLooking(c[2])) =>
           Matches(c, crits[j]) = {crits[j][1] = "<>"}
\* ... and numbers compare numerically: <, =, > are exclusive and exhaustive
Trichotomy ==
  \A j \in 1..Len(crits) : IsNum(crits[j][2]) =>
     \A i \in 1..N :
        LET c == CellAt(j, i)  v == crits[j][2] IN
        IsNum(c) =>
           Cardinality({op \in {"<", "=", ">"} : Matches(c, <<op, v>>) = {TRUE}}) = 1

\* text criteria are case-insensitive, on both sides
UpperT(t) == [i \in DOMAIN t |-> UpperMap[t[i]]]
CaseInsensitive ==
  \A j \in 1..Len(crits) : (IsTxt(crits[j][2])) =>
     \A i \in 1..N :
        LET c == CellAt(j, i)  cr == crits[j] IN
        /\ Matches(c, <<cr[1], Txt(UpperT(cr[2][2]))>>) = Matches(c, cr)
        /\ IsTxt(c) => Matches(Txt(UpperT(c[2])), cr) = Matches(c, cr)

\* "*" selects exactly the text cells, "?*" the non-empty ones
StarLaw ==
  \A i \in 1..N : ~IsErr(rng[i]) =>
     /\ Matches(rng[i], <<"", Txt(<<"*">>)>>) = {IsTxt(rng[i])}
     /\ Matches(rng[i], <<"", Txt(<<"?", "*">>)>>) = {IsTxt(rng[i]) /\ rng[i][2] # <<>>}

\* over numeric data AVERAGEIFS = SUMIFS / COUNTIFS (or #DIV/0! on nothing)
AverageLaw ==
  Enumerable =>
  \A sel \in SelSets :
     LET o == DataOut(sel) IN
     IF o.count = 0 THEN o.davg = {DIV0} /\ o.dmax = {Zero} /\ o.dmin = {Zero}
     ELSE \A a \in o.davg : \A x \in o.dsum :
             REq(R(a[2] * o.count, a[3]), x)

--------------------------------------------------------------------------
(* test-vector export *)
\* (the selection is computed once per state: TLC does not keep the value
\* of a state-level definition, it does keep the value of a LET)
Export ==
  (N >= 1 /\ Len(crits) >= 1) =>
  LET must == Must
      may  == May
      enum == Cardinality(may \ must) <= FreeMax                \* Enumerable
      sels == IF enum THEN {must \cup X : X \in SUBSET (may \ must)} ELSE {}
  IN
  PrintT(ToJson([rng   |-> rng,
                 crits |-> crits,
                 must  |-> Mask(must),
                 may   |-> Mask(may),
                 enum  |-> enum,
                 data  |-> Data,
                 \* positions whose answer to the first criterion is fixed
                 fixed |-> Mask({i \in 1..N : Fixed(rng[i], crits[1])}),
                 \* ... and those where "=x" / "<>x" must give opposite answers
                 compl |-> Mask({i \in 1..N : Complementary(rng[i], crits[1])}),
                 outs  |-> {Outcome(sel) : sel \in sels},            \* Outcomes
                 \* the mixed third range, per starting point (MixOutcomes)
                 mixed |-> {[o |-> o, cells |-> Mixed(o),
                             outs |-> {MixOut(sel, o) : sel \in sels}]
                            : o \in Offsets},
                 \* single criterion "=x" / "<>x": together with its flipped
                 \* twin it must partition the fixed positions
                 part  |-> /\ Len(crits) = 1 /\ crits[1][1] \in {"", "=", "<>"}
                           /\ ~IsBlank(crits[1][2])]))
=============================================================================
