CONSTANTS
  CellPool <- MCCells
  CritPool <- MCCrits
  Crit2Pool <- MCCrits2
  MaxCells <- SimMaxCells
  MaxCritsFor <- SimMaxCritsFor
  FreeMax <- MCFreeMax
SPECIFICATION Spec
INVARIANT TypeOK
INVARIANT Total
INVARIANT OneCriterion
INVARIANT Commute
INVARIANT Partition
INVARIANT NoOpIsEq
INVARIANT TextVsNumber
INVARIANT Trichotomy
INVARIANT CaseInsensitive
INVARIANT StarLaw
INVARIANT BlankIsZero
INVARIANT LineBreakLaw
INVARIANT AverageLaw
INVARIANT Export
INVARIANT Narrowing
