------------------------------- MODULE Engine -------------------------------
(***************************************************************************)
(* Implementation-shaped model of pycel's lazy, non-iterative evaluation   *)
(* engine (ExcelCompiler in excelcompiler.py).                             *)
(*                                                                         *)
(*   cell_map membership            -> built                               *)
(*   cell.value (None = needs_calc) -> cache (NoneV)                       *)
(*   dep_graph edges                -> edges                               *)
(*   _values_changed                -> changed                             *)
(*                                                                         *)
(* One action per public call: Evaluate(n) is _gen_graph/_make_cells/      *)
(* _process_gen_graph (build the missing ancestors, add their edges,       *)
(* evaluate the new ranges and unbounded-range references eagerly)         *)
(* followed by _evaluate (depth-first     *)
(* fill that stops at cached nodes); SetValue(a, v) is set_value with the  *)
(* type-aware comparison and _reset with its early stop at nodes that are  *)
(* already None.  The property layer (Sheet) is Fresh(n, inp): the value   *)
(* a from-scratch compile with the current inputs produces.                *)
(***************************************************************************)
EXTENDS EngineValues, FiniteSets, Json

CONSTANTS
  Inputs,    \* input (constant) cells
  Formulas,  \* formula cells
  Ranges,    \* range nodes (plain: members; CSE: an array formula)
  Aliases,   \* cells standing for an unbounded range (A:A), formula _REF_(range)
  Def,       \* [Formulas \cup Ranges \cup Aliases -> record]  see Prec/Apply
  Init0,     \* [Inputs -> value]   the workbook as written
  Pool,      \* values set_value may write
  Settable,  \* inputs set_value is applied to (a subset of Inputs)
  Recalc,    \* BOOLEAN: the recalculate() action is part of the explored behaviours
  Lists,     \* address lists evaluate() may be called with (sequences of nodes)
  SetLists,  \* sequences of <<input, value>> for set_value(range / list, values)
  Src        \* "NoData": workbook without stored results
             \* "Stored": xlsx with stored formula results
             \* "Loaded": model read back by from_file

VARIABLES inp, built, cache, edges, changed, ret, act
vars == <<inp, built, cache, edges, changed, ret, act>>
view == <<inp, built, cache, edges, changed>>      \* what behaviour depends on

Nodes == Inputs \cup Formulas \cup Ranges \cup Aliases

SeqSet(s) == {s[i] : i \in 1..Len(s)}
Members(r) == UNION {SeqSet(Def[r].rows[i]) : i \in 1..Len(Def[r].rows)}

(* direct precedents = needed_addresses of the node *)
PrecOf(n) ==
  IF n \in Inputs THEN {}
  ELSE LET d == Def[n] IN
    CASE d.kind = "Plus"  -> SeqSet(d.refs)
      [] d.kind = "Lin"   -> SeqSet(d.refs)
      [] d.kind = "Cat"   -> {d.ref}
      [] d.kind = "SumR"  -> {d.rng}
      [] d.kind = "Idx"   -> {d.rng}
      [] d.kind = "Range" -> Members(n)
      [] d.kind = "CSE"   -> {d.rng}
      [] d.kind = "Alias" -> {d.rng}

\* needed_addresses in the order the code yields them
RECURSIVE FlatSeq(_)
FlatSeq(rows) == IF rows = <<>> THEN <<>> ELSE Head(rows) \o FlatSeq(Tail(rows))
Uniq(seq) ==
  LET RECURSIVE U(_, _)
      U(acc, rest) == IF rest = <<>> THEN acc
                      ELSE U(IF \E i \in 1..Len(acc) : acc[i] = Head(rest) THEN acc
                             ELSE Append(acc, Head(rest)), Tail(rest))
  IN  U(<<>>, seq)
NeededSeq(n) ==
  IF n \in Inputs THEN <<>>
  ELSE LET d == Def[n] IN
    CASE d.kind \in {"Plus", "Lin"} -> Uniq(d.refs)
      [] d.kind = "Range" -> FlatSeq(d.rows)
      [] d.kind = "Cat"   -> <<d.ref>>
      [] OTHER            -> <<d.rng>>

\* constant-level tables (TLC evaluates them once)
PrecMap == [n \in Nodes |-> PrecOf(n)]
Prec(n) == PrecMap[n]

RECURSIVE AncRec(_)
AncRec(n) == {n} \cup UNION {AncRec(p) : p \in PrecMap[n]}
AncMap == [n \in Nodes |-> AncRec(n)]
AncOf(n) == AncMap[n]

\* rank = length of the longest precedent chain below a node (inputs: 0)
SetMax(S) == CHOOSE x \in S : \A y \in S : y <= x
RECURSIVE RankIter(_, _)
RankIter(r, k) ==
  IF k = 0 THEN r
  ELSE RankIter([n \in Nodes |-> IF PrecMap[n] = {} THEN 0
                                  ELSE 1 + SetMax({r[p] : p \in PrecMap[n]})], k - 1)
RankMap == RankIter([n \in Nodes |-> 0], Cardinality(Nodes))
MaxRank == SetMax({RankMap[n] : n \in Nodes})

(* value of node n given the values pv of its direct precedents *)
RECURSIVE PlusFold(_, _, _)
PlusFold(refs, pv, acc) ==
  IF refs = <<>> THEN acc
  ELSE PlusFold(Tail(refs), pv, Arith("+", acc, pv[Head(refs)]))

\* Lin: (c1*r1 + c2*r2 + ..) / 2^shift + b, on numbers that are integers
\* scaled by a power of two (EngineIter); b is given already scaled
RECURSIVE LinFold(_, _, _, _)
LinFold(refs, coefs, pv, acc) ==
  IF refs = <<>> THEN acc
  ELSE LinFold(Tail(refs), Tail(coefs), pv,
               Arith("+", acc, Arith("*", VN(Head(coefs)), pv[Head(refs)])))
LinApply(d, pv) ==
  LET sum == LinFold(d.refs, d.coefs, pv, VN(0))
  IN  IF sum[1] # "N" THEN sum
      ELSE IF sum[2] % (2 ^ d.shift) # 0 THEN <<"U">>     \* not exact at this scale
      ELSE VN(sum[2] \div (2 ^ d.shift) + d.b)

Apply(n, pv) ==
  LET d == Def[n] IN
  CASE d.kind = "Plus"  -> Arith("+", PlusFold(Tail(d.refs), pv, pv[Head(d.refs)]), VN(d.k))
    [] d.kind = "Lin"   -> LinApply(d, pv)
    [] d.kind = "Cat"   -> Concat(pv[d.ref], VS(d.suf))
    [] d.kind = "SumR"  -> SumCells(Flat(pv[d.rng]))
    [] d.kind = "Idx"   -> NoBlank(pv[d.rng][2][d.i][d.j])
    [] d.kind = "Range" -> VM([i \in 1..Len(d.rows) |->
                               [j \in 1..Len(d.rows[i]) |-> pv[d.rows[i][j]]]])
    [] d.kind = "CSE"   -> LET F(x) == Arith("*", x, VN(d.k)) IN MapM(pv[d.rng], F)
    [] d.kind = "Alias" -> pv[d.rng]

(* compute the nodes of `need` bottom-up (precedents first) from cache c; *)
(* every precedent of a needed node is cached in c or needed itself      *)
RECURSIVE FillLevels(_, _, _)
FillLevels(c, need, k) ==
  IF k > MaxRank THEN c
  ELSE FillLevels([x \in Nodes |->
                     IF x \in need /\ RankMap[x] = k
                     THEN Apply(x, [p \in PrecMap[x] |-> c[p]]) ELSE c[x]],
                  need, k + 1)

(* ---- property layer: the workbook as a pure function of its inputs ---- *)
FreshAll(i) ==
  FillLevels([x \in Nodes |-> IF x \in Inputs THEN i[x] ELSE NoneV],
             Nodes \ Inputs, 1)
Fresh(n, i) == FreshAll(i)[n]

StoredMap == FreshAll(Init0)
Stored(n) == StoredMap[n]
\* what the reader hands over for a stored result: the empty text comes back
\* as "no value" (UnkV), while the dependants of the cell carry stored results
StoredRead(n) == IF Stored(n) = VS("") THEN UnkV ELSE Stored(n)

(* ---- depth-first fill: stops at cached nodes ---- *)
RECURSIVE Needed(_, _)
Needed(x, c) == IF ~NoVal(c[x]) THEN {}
                ELSE {x} \cup UNION {Needed(p, c) : p \in PrecMap[x]}

Fill(c, roots) == FillLevels(c, UNION {Needed(r, c) : r \in roots}, 1)

(* edges added by _process_gen_graph for the newly built nodes B *)
NewEdges(B) == {<<p, d>> \in Nodes \X B : p \in Prec(d)}

(* ---- _reset: least set closed under "cached successor" ---- *)
RECURSIVE ResetFrom(_, _, _)
ResetFrom(front, done, c) ==
  IF front = {} THEN done
  ELSE LET nxt == {y \in Nodes : /\ y \notin done
                                 /\ c[y] # NoneV
                                 /\ \E x \in front : <<x, y>> \in edges}
       IN  ResetFrom(nxt, done \cup nxt, c)

------------------------------------------------------------------------------
\* what a saved model holds: the cells, the ranges with a formula (array
\* formulas, unbounded ranges) and, rebuilt while loading, the plain ranges some
\* formula reads; a plain range nobody reads (it was only ever evaluated from
\* outside) is not in the file
FullBuild == {x \in Nodes : ~(/\ x \in Ranges /\ Def[x].kind = "Range"
                               /\ \A y \in Nodes : x \notin PrecMap[y])}
LoadedCache ==   \* from_file: every cell built, formulas uncomputed, then the
                 \* ranges are evaluated eagerly by _process_gen_graph
  LET c0 == [x \in Nodes |-> IF x \in Inputs THEN Init0[x]
                             ELSE IF x \in Formulas THEN UnkV ELSE NoneV]
  IN  Fill(c0, FullBuild \cap (Ranges \cup Aliases))

Init ==
  /\ inp = Init0
  /\ changed = FALSE
  /\ ret = NoneV
  /\ act = [op |-> "init"]
  /\ IF Src = "Loaded"
     THEN /\ built = FullBuild
          /\ cache = LoadedCache
          /\ edges = NewEdges(FullBuild)
     ELSE /\ built = {}
          /\ cache = [x \in Nodes |-> NoneV]
          /\ edges = {}

(* the effect of one evaluate(address) on <<built, cache, edges>> *)
EvalStep(st, n) ==
  LET B  == AncOf(n) \ st.built
      c0 == [x \in Nodes |->
               IF x \notin B THEN st.cache[x]
               ELSE IF x \in Inputs THEN inp[x]
               ELSE IF x \in Formulas /\ Src = "Stored" /\ ~changed THEN StoredRead(x)
               ELSE IF x \in Formulas /\ ~changed THEN UnkV    \* nothing stored: also "read as None"
               ELSE NoneV]
      c1 == Fill(c0, {n} \cup (B \cap (Ranges \cup Aliases)))
  IN  [built |-> st.built \cup B, cache |-> c1, edges |-> st.edges \cup NewEdges(B)]

Evaluate(n) ==
  LET st == EvalStep([built |-> built, cache |-> cache, edges |-> edges], n)
  IN  /\ built' = st.built
      /\ edges' = st.edges
      /\ cache' = st.cache
      /\ ret' = st.cache[n]
      /\ act' = [op |-> "evaluate", n |-> n]
      /\ UNCHANGED <<inp, changed>>

(* evaluate([a, b, ..]) / a tuple / a generator of addresses: the addresses *)
(* are evaluated one after the other, the result has the same shape         *)
RECURSIVE EvalSeq(_, _)
EvalSeq(st, seq) == IF seq = <<>> THEN st ELSE EvalSeq(EvalStep(st, Head(seq)), Tail(seq))

RECURSIVE RetSeq(_, _)
RetSeq(st, seq) == IF seq = <<>> THEN <<>>
                   ELSE LET s1 == EvalStep(st, Head(seq))
                        IN  <<s1.cache[Head(seq)]>> \o RetSeq(s1, Tail(seq))

EvaluateList(seq) ==
  LET st0 == [built |-> built, cache |-> cache, edges |-> edges]
      st  == EvalSeq(st0, seq)
  IN  /\ built' = st.built
      /\ edges' = st.edges
      /\ cache' = st.cache
      /\ ret' = <<"L", RetSeq(st0, seq)>>
      /\ act' = [op |-> "evaluate_list", ns |-> seq]
      /\ UNCHANGED <<inp, changed>>

(* the effect of one set_value(cell, v) on <<inp, cache, changed>> *)
SetStep(st, a, v) ==
  IF st.cache[a] = v THEN st
  ELSE LET c1 == [st.cache EXCEPT ![a] = v]
           R  == ResetFrom({a}, {a}, c1)
       IN  [inp |-> [st.inp EXCEPT ![a] = v],
            cache |-> [x \in Nodes |-> IF x \in R \ {a} THEN NoneV ELSE c1[x]],
            changed |-> TRUE]

SetValue(a, v) ==
  /\ a \in built           \* the code asserts the address is in cell_map
  /\ LET st == SetStep([inp |-> inp, cache |-> cache, changed |-> changed], a, v)
     IN  /\ inp' = st.inp
         /\ cache' = st.cache
         /\ changed' = st.changed
  /\ ret' = NoneV
  /\ act' = [op |-> "set_value", n |-> a, v |-> v]
  /\ UNCHANGED <<built, edges>>

(* set_value(range or list of addresses, values): the values are flattened  *)
(* and the cells are set one after the other                                *)
RECURSIVE SetSeq(_, _)
SetSeq(st, pairs) == IF pairs = <<>> THEN st
                     ELSE SetSeq(SetStep(st, Head(pairs)[1], Head(pairs)[2]), Tail(pairs))

SetMany(pairs) ==
  /\ \A i \in 1..Len(pairs) : pairs[i][1] \in built
  /\ LET st == SetSeq([inp |-> inp, cache |-> cache, changed |-> changed], pairs)
     IN  /\ inp' = st.inp
         /\ cache' = st.cache
         /\ changed' = st.changed
  /\ ret' = NoneV
  /\ act' = [op |-> "set_many", pairs |-> pairs]
  /\ UNCHANGED <<built, edges>>

(* recalculate(): every range and formula cell of the cell map is cleared, *)
(* then every cell of the cell map is evaluated                            *)
Recalculate ==
  /\ Recalc
  /\ LET c0 == [x \in Nodes |-> IF x \in built /\ x \notin Inputs THEN NoneV ELSE cache[x]]
     IN  cache' = Fill(c0, built)
  /\ ret' = NoneV
  /\ act' = [op |-> "recalculate"]
  /\ UNCHANGED <<inp, built, edges, changed>>

Next == \/ \E n \in Nodes : Evaluate(n)
        \/ Recalculate
        \/ \E seq \in Lists : EvaluateList(seq)
        \/ \E pairs \in SetLists : SetMany(pairs)
        \/ \E a \in Settable, v \in Pool : SetValue(a, v)

Spec == Init /\ [][Next]_vars

------------------------------------------------------------------------------
(* LazyCache layer: what every correct cache discipline satisfies *)
Coherent == LET f == FreshAll(inp) IN
  \A n \in built \ Inputs : ~NoVal(cache[n]) => cache[n] = f[n]
InputsMirror == /\ \A a \in built \cap Inputs : cache[a] = inp[a]
                /\ \A a \in Inputs \ built : inp[a] = Init0[a]
RetOK == /\ act.op = "evaluate" => ret = Fresh(act.n, inp)
         /\ act.op = "evaluate_list" =>
              ret[2] = [i \in 1..Len(act.ns) |-> Fresh(act.ns[i], inp)]

(* facts about the implementation's own structures *)
\* a cell with a value has precedents which are not known to be reset (this is
\* what makes the early stop of _reset sound; UnkV precedents are allowed: a
\* reset walks through them)
Closure == \A n \in built \ Inputs : ~NoVal(cache[n]) =>
             \A p \in Prec(n) : p \in built /\ cache[p] # NoneV
EdgesComplete == \A d \in built, p \in Nodes : p \in Prec(d) =>
                   p \in built /\ <<p, d>> \in edges
NoStrayCache == \A n \in Nodes \ built : cache[n] = NoneV
UnchangedIsInit == ~changed => inp = Init0

(* every state, for the replay driver (act' is the label of the edge) *)
StateJson(i, b, c, e, ch) ==
  [inp |-> i, built |-> b, cache |-> [x \in b |-> c[x]], edges |-> e, changed |-> ch]
PrintInit == act.op = "init" =>
  PrintT(ToJson([init |-> StateJson(inp, built, cache, edges, changed),
                 fresh |-> FreshAll(inp)]))
PrintEdge ==
  PrintT(ToJson([from |-> StateJson(inp, built, cache, edges, changed),
                 act  |-> act',
                 ret  |-> ret',
                 to   |-> StateJson(inp', built', cache', edges', changed')]))
=============================================================================
