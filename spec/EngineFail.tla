----------------------------- MODULE EngineFail -----------------------------
(***************************************************************************)
(* C09 (plain mode) -- evaluations that raise.  Engine plus                *)
(*   broken : formula cells whose evaluation raises right now (an unknown  *)
(*            function, or a plugin function switched by Break/Heal: "a    *)
(*            plugin that raises on its k-th call" is Break after k-1      *)
(*            successful evaluations)                                      *)
(*   ovr    : formula cells overwritten with a constant by set_value       *)
(* The evaluation is the depth-first descent the code performs, written    *)
(* sequentially so that the cells computed BEFORE the failure keep their   *)
(* values and the cells on the evaluation stack stay uncomputed.           *)
(*                                                                         *)
(* Property layer: True(n) is the value of n with every overwritten cell a *)
(* constant (what a fresh model with those constants computes);            *)
(* an evaluate either returns True(n) or raises, and it raises only when   *)
(* the descent really had to compute a broken cell.                        *)
(***************************************************************************)
EXTENDS Engine

CONSTANTS Breakable,    \* formula cells that may be broken / healed / overwritten
          InitBroken,   \* the cells broken from the start (unknown function)
          FailEarly,    \* broken cells that fail before reading anything (an unknown
                        \* function name), the others fail after their arguments
          Dynamic       \* BOOLEAN: Break / Heal actions (switchable plugin) enabled

VARIABLES broken, ovr, raised
fvars == <<vars, broken, ovr, raised>>
fview == <<view, broken, ovr>>

IsOvr(c) == c \in DOMAIN ovr

(* ---- property layer with overwritten cells ---- *)
RECURSIVE TrueLevels(_, _, _)
TrueLevels(c, o, k) ==
  IF k > MaxRank THEN c
  ELSE TrueLevels([x \in Nodes |->
                     IF x \in DOMAIN o THEN o[x]
                     ELSE IF x \notin Inputs /\ RankMap[x] = k
                     THEN Apply(x, [q \in PrecMap[x] |-> c[q]]) ELSE c[x]],
                  o, k + 1)
TrueAll(i, o) ==
  TrueLevels([x \in Nodes |-> IF x \in Inputs THEN i[x]
                              ELSE IF x \in DOMAIN o THEN o[x] ELSE NoneV], o, 1)

\* does computing n from scratch need a broken cell (not hidden by an overwrite)?
RECURSIVE NeedsBroken(_, _, _)
NeedsBroken(n, b, o) ==
  IF n \in DOMAIN o \/ n \in Inputs THEN FALSE
  ELSE n \in b \/ \E q \in PrecMap[n] : NeedsBroken(q, b, o)

(* ---- sequential depth-first evaluation with failure ---- *)
RECURSIVE EvalF(_, _)
RECURSIVE EvalSeqF(_, _)
EvalSeqF(s, seq) ==
  IF seq = <<>> \/ s.failed THEN s ELSE EvalSeqF(EvalF(s, Head(seq)), Tail(seq))

EvalF(s, c) ==
  IF s.failed \/ c \in Inputs \/ ~NoVal(s.cache[c]) THEN s
  ELSE IF c \in broken /\ c \in FailEarly THEN [s EXCEPT !.failed = TRUE]
  ELSE LET s1 == EvalSeqF(s, NeededSeq(c))
       IN  IF s1.failed THEN s1
           ELSE IF c \in broken THEN [s1 EXCEPT !.failed = TRUE]
           ELSE [s1 EXCEPT !.cache[c] =
                   NoBlank(Apply(c, [q \in PrecMap[c] |-> s1.cache[q]]))]

SetToSeqF(S) ==
  LET RECURSIVE F(_)
      F(T) == IF T = {} THEN <<>> ELSE LET x == CHOOSE y \in T : TRUE IN <<x>> \o F(T \ {x})
  IN  F(S)

FInit == Init /\ broken = InitBroken /\ ovr = <<>> /\ raised = FALSE

FEvaluate(n) ==
  LET B  == AncOf(n) \ built
      c0 == [x \in Nodes |->
               IF x \notin B THEN cache[x]
               ELSE IF x \in Inputs THEN inp[x]
               ELSE IF x \in Formulas /\ Src = "Stored" /\ ~changed THEN StoredRead(x)
               ELSE IF x \in Formulas /\ ~changed THEN UnkV    \* as Engine!EvalStep
               ELSE NoneV]
      \* new ranges first (evaluated when built), then the address itself
      s  == EvalSeqF([cache |-> c0, failed |-> FALSE],
                     SetToSeqF(B \cap (Ranges \cup Aliases)) \o <<n>>)
  IN  /\ built' = built \cup B
      /\ edges' = edges \cup NewEdges(B)
      /\ cache' = s.cache
      /\ raised' = s.failed
      /\ ret' = IF s.failed THEN <<"X">> ELSE s.cache[n]
      /\ act' = [op |-> "evaluate", n |-> n]
      /\ UNCHANGED <<inp, changed, broken, ovr>>

\* set_value on an input whose dependants are not overwritten cells' inputs
FSetValue(a, v) ==
  /\ \A c \in DOMAIN ovr : a \notin AncOf(c)
  /\ SetValue(a, v)
  /\ raised' = FALSE
  /\ UNCHANGED <<broken, ovr>>

\* overwrite a (failing) formula cell with a constant: set_value on it
Repair(c, v) ==
  /\ c \in Breakable /\ c \in built /\ ~IsOvr(c)
  \* an overwritten cell keeps its formula: changing one of its precedents
  \* (also by overwriting that one) would reset it and bring the formula back
  /\ \A x \in DOMAIN ovr : c \notin AncOf(x)
  /\ IF cache[c] = v
     THEN UNCHANGED <<cache, changed>>           \* same value: set_value does nothing
     ELSE LET c1 == [cache EXCEPT ![c] = v]
              R  == ResetFrom({c}, {c}, c1)
          IN  /\ cache' = [x \in Nodes |-> IF x \in R \ {c} THEN NoneV ELSE c1[x]]
              /\ changed' = TRUE
  /\ ovr' = [x \in DOMAIN ovr \cup {c} |-> IF x = c THEN v ELSE ovr[x]]
  /\ ret' = NoneV /\ raised' = FALSE
  /\ act' = [op |-> "repair", n |-> c, v |-> v]
  /\ UNCHANGED <<inp, built, edges, broken>>

Break(c) == /\ Dynamic /\ c \in Breakable \ broken /\ ~IsOvr(c)
            /\ broken' = broken \cup {c}
            /\ act' = [op |-> "break", n |-> c] /\ ret' = NoneV /\ raised' = FALSE
            /\ UNCHANGED <<inp, built, cache, edges, changed, ovr>>

Heal(c) == /\ Dynamic /\ c \in broken
           /\ broken' = broken \ {c}
           /\ act' = [op |-> "heal", n |-> c] /\ ret' = NoneV /\ raised' = FALSE
           /\ UNCHANGED <<inp, built, cache, edges, changed, ovr>>

FNext == \/ \E n \in Nodes : FEvaluate(n)
         \/ \E a \in Settable, v \in Pool : FSetValue(a, v)
         \/ \E c \in Breakable, v \in Pool : Repair(c, v)
         \/ \E c \in Breakable : Break(c) \/ Heal(c)

FSpec == FInit /\ [][FNext]_fvars

(* ---- the property ---- *)
\* never a stale or wrong value: whatever is returned is the true value
ReturnsTrue == act.op = "evaluate" /\ ~raised => ret = TrueAll(inp, ovr)[act.n]
\* it raises only if it had to compute a broken cell
RaiseJustified == act.op = "evaluate" /\ raised => NeedsBroken(act.n, broken, ovr)
\* whatever is cached is the true value (so later calls cannot return stale data)
CoherentF == LET t == TrueAll(inp, ovr) IN
  \A n \in built \ Inputs : ~NoVal(cache[n]) => cache[n] = t[n]
\* cells that do not depend on a broken cell always evaluate (UnrelatedOK)
UnrelatedOK == act.op = "evaluate" /\ ~NeedsBroken(act.n, broken, ovr) => ~raised

FStateJson(i, b, c, e, ch, br, o) ==
  [inp |-> i, built |-> b, cache |-> [x \in b |-> c[x]], edges |-> e, changed |-> ch,
   broken |-> br, ovr |-> o]
FPrintInit == act.op = "init" =>
  PrintT(ToJson([init |-> FStateJson(inp, built, cache, edges, changed, broken, ovr)]))
FPrintEdge ==
  PrintT(ToJson([from |-> FStateJson(inp, built, cache, edges, changed, broken, ovr),
                 act  |-> act', ret |-> ret', raised |-> raised',
                 to   |-> FStateJson(inp', built', cache', edges', changed', broken', ovr')]))
=============================================================================
