----------------------------- MODULE EngineIter -----------------------------
(***************************************************************************)
(* C06 -- iterative calculation (cycles enabled): _evaluate_iterative,     *)
(* _CycleCell and the iteration tracker.                                   *)
(*                                                                         *)
(*   cell._value / _prev_value / wip        -> val, prev (wip only lives   *)
(*                                              inside a pass)             *)
(*   tracker.iteration_number / todo        -> passes, todo                *)
(*   tracker.computed                       -> computed (inside a pass)    *)
(*   _CellRange.value (cleared every pass)  -> rv (inside a pass)          *)
(*                                                                         *)
(* evaluate(addr, N, tol) is one action: passes are repeated until         *)
(* iteration_number >= N or no cell changed by more than tol (todo = {}).  *)
(* A pass is the depth-first evaluation the code performs: a cell that is  *)
(* work-in-progress (on the stack: a cycle) yields its previous value, a   *)
(* cell already computed in this pass yields its value, any other cell is  *)
(* marked wip, remembers its value as previous, evaluates its precedents   *)
(* in order, computes, and is put on the todo list if it moved by more     *)
(* than the tolerance.  Numbers are integers scaled by Scale (a power of   *)
(* two) so that dyadic linear cycles are exact.                            *)
(***************************************************************************)
EXTENDS Engine

CONSTANTS IterChoices,  \* set of <<iterations, tolerance (scaled)>>
          Acyclic       \* BOOLEAN: the workbook has no circular reference

VARIABLES val, prev, passes, todo, lastN
ivars == <<inp, built, val, prev, passes, todo, lastN, ret, act, cache, edges, changed>>
unused == <<cache, edges>>              \* Engine's variables that this mode does not use
iview == <<inp, built, val, prev, passes, todo, changed>>

\* reachable nodes without assuming acyclicity
RECURSIVE ReachFrom(_, _)
ReachFrom(front, seen) ==
  LET nxt == UNION {PrecMap[x] : x \in front} \ seen
  IN  IF nxt = {} THEN seen ELSE ReachFrom(nxt, seen \cup nxt)
Reach(n) == ReachFrom({n}, {n})

AbsI(i) == IF i < 0 THEN -i ELSE i
\* _CellBase.close_enough(prev, tol): numbers within the tolerance, else ==
CloseI(a, b, tolS) ==
  IF a[1] = "U" \/ b[1] = "U" THEN TRUE      \* outside the exact fragment: not judged
  ELSE IF a[1] = "N" /\ b[1] = "N" THEN AbsI(a[2] - b[2]) <= tolS ELSE a = b

Tracked == Formulas \cup Aliases         \* _CycleCell with a formula

(* state threaded through a pass *)
\* a cell that was never calculated holds None, which reads as an empty cell
NoneAsBlank(v) == IF v = NoneV THEN Blank ELSE v
ReadVal(s, x) == IF x \in Inputs THEN inp[x]
                 ELSE IF x \in Ranges THEN s.rv[x]
                 ELSE NoneAsBlank(IF x \in s.wip THEN s.prev[x] ELSE s.val[x])

\* a formula never returns blank / None: eval_func maps them to 0
Result(v) == IF v = NoneV \/ v = Blank THEN VN(0) ELSE v

RECURSIVE EvalNode(_, _, _)
RECURSIVE EvalSeqI(_, _, _)
EvalSeqI(s, seq, tolS) ==
  IF seq = <<>> THEN s ELSE EvalSeqI(EvalNode(s, Head(seq), tolS), Tail(seq), tolS)

EvalNode(s, c, tolS) ==
  IF c \in Inputs THEN s
  ELSE IF c \in Ranges
  THEN IF s.rv[c] # NoneV THEN s
       ELSE LET s1 == EvalSeqI(s, NeededSeq(c), tolS)
            IN  [s1 EXCEPT !.rv[c] = Apply(c, [p \in PrecMap[c] |-> ReadVal(s1, p)])]
  ELSE IF c \in s.wip \/ c \in s.computed THEN s
  ELSE LET s0 == [s EXCEPT !.wip = @ \cup {c}, !.prev[c] = s.val[c]]
           s1 == EvalSeqI(s0, NeededSeq(c), tolS)
           \* (an unbounded range which resolves to one cell is that cell's
           \* value as it is, blank included: no formula result)
           a  == Apply(c, [p \in PrecMap[c] |-> ReadVal(s1, p)])
           v  == IF c \in Aliases THEN a ELSE Result(a)
       IN  [s1 EXCEPT !.val[c] = v,
                      !.wip = @ \ {c},
                      !.computed = @ \cup {c},
                      !.todo = IF CloseI(s1.prev[c], v, tolS) THEN @ ELSE @ \cup {c}]

\* inc_iteration_number + clearing of the ranges, then the evaluation
PassFrom(s, roots, tolS) ==
  EvalSeqI([s EXCEPT !.computed = {}, !.todo = s.newtodo, !.wip = {},
                     !.rv = [r \in Ranges |-> NoneV], !.newtodo = {}],
           roots, tolS)

RECURSIVE Iterate(_, _, _, _, _)
Iterate(s, roots, k, N, tolS) ==
  LET s1 == PassFrom(s, roots, tolS)
  IN  IF k >= N \/ s1.todo = {} THEN [s |-> s1, k |-> k]
      ELSE Iterate(s1, <<roots[Len(roots)]>>, k + 1, N, tolS)

SetToSeq(S) ==   \* some fixed order of a set of nodes
  LET RECURSIVE F(_)
      F(T) == IF T = {} THEN <<>> ELSE LET x == CHOOSE y \in T : TRUE IN <<x>> \o F(T \ {x})
  IN  F(S)

IInit ==
  /\ inp = Init0
  /\ built = {}
  /\ val = [x \in Tracked |-> NoneV]
  /\ prev = [x \in Tracked |-> NoneV]
  /\ passes = 0
  /\ todo = {}
  /\ lastN = 0
  /\ ret = NoneV
  /\ act = [op |-> "init"]
  /\ cache = [x \in Nodes |-> NoneV] /\ edges = {} /\ changed = FALSE

EvalIter(n, ch) ==
  LET N == ch[1]  tolS == ch[2]
      B == Reach(n) \ built
      \* constructing a cell with a value puts it on the todo list of the
      \* running pass (its previous value is None)
      \* with stored results (and no value changed yet) a new formula cell starts
      \* with its stored result, which also counts as "a cell with a value"
      storedNew == IF Src = "Stored" /\ ~changed THEN B \cap Formulas ELSE {}
      val0 == [x \in Tracked |-> IF x \in storedNew THEN Stored(x) ELSE val[x]]
      newtodo == {x \in B \cap Inputs : inp[x] # Blank} \cup storedNew
      s0 == [val |-> val0, prev |-> prev, wip |-> {}, computed |-> {}, todo |-> {},
             rv |-> [r \in Ranges |-> NoneV], newtodo |-> newtodo]
      \* new ranges / unbounded references are evaluated when built, then n
      roots == SetToSeq(B \cap (Ranges \cup Aliases)) \o <<n>>
      r == Iterate(s0, roots, 1, N, tolS)
  IN  /\ built' = built \cup B
      /\ val' = r.s.val
      /\ prev' = r.s.prev
      /\ todo' = r.s.todo
      /\ passes' = r.k
      /\ lastN' = N
      /\ ret' = IF n \in Tracked THEN r.s.val[n] ELSE IF n \in Ranges THEN r.s.rv[n] ELSE inp[n]
      /\ act' = [op |-> "evaluate", n |-> n, iterations |-> N, tol |-> tolS]
      /\ UNCHANGED <<inp, unused, changed>>

\* no reset in this mode; the value setter puts the cell on the tracker's
\* todo list (its previous value is None) unless it is emptied
ISetValue(a, v) ==
  /\ a \in built
  /\ inp' = [inp EXCEPT ![a] = v]
  /\ todo' = IF inp[a] # v /\ v # Blank THEN todo \cup {a} ELSE todo
  /\ changed' = IF inp[a] # v THEN TRUE ELSE changed
  /\ ret' = NoneV
  /\ act' = [op |-> "set_value", n |-> a, v |-> v]
  /\ UNCHANGED <<built, val, prev, passes, lastN, unused>>

INext == \/ \E n \in Nodes, ch \in IterChoices : EvalIter(n, ch)
         \/ \E a \in Settable, v \in Pool : ISetValue(a, v)

ISpec == IInit /\ [][INext]_ivars

(* ---- the property ---- *)
PassBound == passes <= lastN \/ lastN = 0

\* stopping before the limit means no computed cell moved by more than tol
HonestStop ==
  act.op = "evaluate" /\ passes < act.iterations =>
     \A c \in Tracked \cap Reach(act.n) : CloseI(prev[c], val[c], act.tol)

AcyclicAgrees ==
  Acyclic /\ act.op = "evaluate" => ret = Fresh(act.n, inp)

\* on an acyclic workbook the second pass changes nothing: at most 2 passes
AcyclicTwoPasses == Acyclic /\ act.op = "evaluate" => passes <= 2

\* bounds on the length of the explored histories (circular systems)
Depth3 == TLCGet("level") <= 3
Depth4 == TLCGet("level") <= 4
Depth5 == TLCGet("level") <= 5

IStateJson(i, b, v, pv, k, td, ch) ==
  [changed |-> ch, inp |-> i, built |-> b, val |-> [x \in b \cap Tracked |-> v[x]],
   prev |-> [x \in b \cap Tracked |-> pv[x]], passes |-> k, todo |-> td]
IPrintInit == act.op = "init" =>
  PrintT(ToJson([init |-> IStateJson(inp, built, val, prev, passes, todo, changed)]))
IPrintEdge ==
  PrintT(ToJson([from |-> IStateJson(inp, built, val, prev, passes, todo, changed),
                 act  |-> act', ret |-> ret',
                 to   |-> IStateJson(inp', built', val', prev', passes', todo', changed')]))
=============================================================================
