--------------------------- MODULE EngineValues ---------------------------
(***************************************************************************)
(* Cell values of the engine-level specifications, as tagged tuples (the   *)
(* tag comes first so TLC never compares an integer with a string):        *)
(*   <<"N", i>> number   <<"B", 0|1>> logical   <<"S", s>> text            *)
(*   <<"Z">> blank (python None in an input cell)   <<"E", code>> error    *)
(*   <<"M", rows>> value of a range: sequence of rows of cell values       *)
(*   <<"?">> "not computed" (python None in a formula / range node)        *)
(* and the meaning of the formula kinds used by the engine workbooks.      *)
(* The formula kinds are few but type-revealing: Cat distinguishes 1 from  *)
(* TRUE and blank from 0, Plus coerces, SumR skips non-numbers.            *)
(***************************************************************************)
EXTENDS Naturals, Integers, Sequences, TLC

NoneV == <<"?">>
\* "read as no value from the stored results of a workbook": an empty text
\* result is stored as <v></v> and comes back as None.  The cell has to be
\* calculated like a NoneV cell, but nothing says that its dependants were reset.
UnkV == <<"?!">>
NoVal(v) == v = NoneV \/ v = UnkV
Blank == <<"Z">>
VN(i)  == <<"N", i>>
VB(b)  == <<"B", b>>
VS(s)  == <<"S", s>>
VE(e)  == <<"E", e>>
VM(r)  == <<"M", r>>

IsErr(v) == v[1] = "E"
IsNum(v) == v[1] = "N"

\* what a formula returns for a blank / empty result
NoBlank(v) == IF v = Blank THEN VN(0) ELSE v

\* arithmetic coercion of a scalar: number, or an error value
ToNum(v) ==
  CASE v[1] = "N" -> v
    [] v[1] = "B" -> VN(v[2])
    [] v[1] = "Z" -> VN(0)
    [] v[1] = "E" -> v
    [] OTHER      -> VE("#VALUE!")     \* text that is not numeric

\* binary + and * as the operand fixup does them: an error operand is
\* returned unchanged, the left one first; then non-numeric text is #VALUE!
Arith(op, a, b) ==
  IF a[1] = "U" \/ b[1] = "U" THEN <<"U">>     \* outside the exact fragment
  ELSE IF IsErr(a) THEN a
  ELSE IF IsErr(b) THEN b
  ELSE LET x == ToNum(a)  y == ToNum(b)
       IN  IF IsErr(x) THEN x
           ELSE IF IsErr(y) THEN y
           ELSE IF op = "+" THEN VN(x[2] + y[2]) ELSE VN(x[2] * y[2])

\* the text an operand contributes to &
Render(v) ==
  CASE v[1] = "N" -> ToString(v[2])
    [] v[1] = "B" -> IF v[2] = 1 THEN "TRUE" ELSE "FALSE"
    [] v[1] = "Z" -> ""
    [] OTHER      -> v[2]

Concat(a, b) ==
  IF IsErr(a) THEN a ELSE IF IsErr(b) THEN b ELSE VS(Render(a) \o Render(b))

\* row-major flattening of a range value
RECURSIVE FlatRows(_)
FlatRows(rows) == IF rows = <<>> THEN <<>> ELSE Head(rows) \o FlatRows(Tail(rows))
\* (an unbounded range may resolve to a single cell: its value is that of the cell)
Flat(m) == IF m[1] = "M" THEN FlatRows(m[2]) ELSE <<m>>

\* SUM over cells: first error, else the numbers only
RECURSIVE FirstErr(_)
FirstErr(seq) == IF seq = <<>> THEN NoneV
                 ELSE IF IsErr(Head(seq)) THEN Head(seq) ELSE FirstErr(Tail(seq))
RECURSIVE SumNums(_)
SumNums(seq) == IF seq = <<>> THEN 0
                ELSE (IF IsNum(Head(seq)) THEN Head(seq)[2] ELSE 0) + SumNums(Tail(seq))
SumCells(seq) == IF FirstErr(seq) # NoneV THEN FirstErr(seq) ELSE VN(SumNums(seq))

MapM(m, F(_)) == VM([i \in 1..Len(m[2]) |-> [j \in 1..Len(m[2][i]) |-> F(m[2][i][j])]])
=============================================================================
