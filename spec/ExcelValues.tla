---------------------------- MODULE ExcelValues ----------------------------
(***************************************************************************)
(* The scalar value universe of Excel and the meaning of its operators     *)
(* (properties C10, C02; imported by every specification that computes     *)
(* cell values).                                                           *)
(*                                                                         *)
(* A value is a tagged tuple, tag first (TLC cannot compare an integer     *)
(* with a string, comparison of two tuples stops at the first differing    *)
(* element, which is the tag):                                             *)
(*     <<"Z">>            the blank cell                                   *)
(*     <<"N", n, d>>      the number n/d, d > 0, gcd(|n|, d) = 1           *)
(*     <<"B", 0>>, <<"B", 1>>   FALSE, TRUE                                *)
(*     <<"S", s>>         text; s is the sequence of its character codes   *)
(*     <<"E", code>>      one of Excel's seven error values                *)
(*     <<"U", kind>>      NOT a value: "the result lies outside the        *)
(*                        fragment this module defines exactly".  kind     *)
(*                        says what is still known about the result:       *)
(*                          "num"  a (finite) number, value not modelled   *)
(*                          "bool" a logical, value not modelled           *)
(*                          "text" a text, characters not modelled         *)
(*                          "any"  some number, text, logical or error     *)
(*                        Checks skip the exact comparison for U results   *)
(*                        (and count them) but still demand totality.      *)
(*                                                                         *)
(* Numbers are exact rationals.  TLC integers are 32 bit: every product    *)
(* is guarded (MulFits); what does not fit becomes <<"U", "num">>.         *)
(***************************************************************************)
EXTENDS Integers, Sequences, TLC

Blank   == <<"Z">>
Bool(b) == <<"B", b>>
Text(s) == <<"S", s>>
Err(c)  == <<"E", c>>
U(kind) == <<"U", kind>>

TRUEV  == Bool(1)
FALSEV == Bool(0)

ErrorCodes == {"#NULL!", "#DIV/0!", "#VALUE!", "#REF!", "#NAME?", "#NUM!", "#N/A"}
DIV0  == Err("#DIV/0!")
VALUE == Err("#VALUE!")
NUM   == Err("#NUM!")
NA    == Err("#N/A")

Tag(v)     == v[1]
IsBlank(v) == Tag(v) = "Z"
IsNumV(v)  == Tag(v) = "N"
IsBool(v)  == Tag(v) = "B"
IsText(v)  == Tag(v) = "S"
IsErr(v)   == Tag(v) = "E"
IsU(v)     == Tag(v) = "U"

--------------------------------------------------------------------------
(* bounded integer helpers *)

Lim == 1000000000                       \* 10^9 < 2^31 - 1

Abs(x) == IF x < 0 THEN -x ELSE x
Sgn(x) == IF x < 0 THEN -1 ELSE IF x > 0 THEN 1 ELSE 0

RECURSIVE GCD(_, _)
GCD(a, b) == IF b = 0 THEN a ELSE GCD(b, a % b)

\* |a * b| <= Lim, decided without computing the product
MulFits(a, b) == IF a = 0 \/ b = 0 THEN TRUE ELSE Abs(a) <= Lim \div Abs(b)

RECURSIVE Pow10(_)
Pow10(k) == IF k = 0 THEN 1 ELSE 10 * Pow10(k - 1)          \* k <= 9

RECURSIVE NumDigits(_)
NumDigits(n) == IF n < 10 THEN 1 ELSE 1 + NumDigits(n \div 10)   \* n >= 0

--------------------------------------------------------------------------
(* exact rational arithmetic; arguments and results are <<"N", n, d>>     *)
(* values, or <<"U", "num">> when a 32-bit guard trips                    *)

\* the normalised number n/d  (d # 0)
Num(n, d) == LET g == GCD(Abs(n), Abs(d))
                 s == IF d < 0 THEN -1 ELSE 1
             IN  <<"N", (s * n) \div g, Abs(d) \div g>>
IntV(n) == <<"N", n, 1>>
Zero == IntV(0)
One  == IntV(1)
IsZero(x)     == x[2] = 0
IsIntegral(x) == x[3] = 1

NNeg(x) == <<"N", -x[2], x[3]>>

NAdd(x, y) ==
  LET a == x[2]  b == x[3]  c == y[2]  d == y[3]
      g  == GCD(b, d)
      b1 == b \div g
      d1 == d \div g
  IN  IF MulFits(b1, d) /\ MulFits(a, d1) /\ MulFits(c, b1)
      THEN LET n == a * d1 + c * b1 IN            \* |n| <= 2 * Lim < 2^31
           IF Abs(n) <= Lim THEN Num(n, b1 * d) ELSE U("num")
      ELSE U("num")

NSub(x, y) == NAdd(x, NNeg(y))

NMul(x, y) ==
  LET a == x[2]  b == x[3]  c == y[2]  d == y[3]
      g1 == GCD(Abs(a), d)              \* cross-cancel first: fewer overflows
      g2 == GCD(Abs(c), b)
      a1 == a \div g1   d1 == d \div g1
      c1 == c \div g2   b1 == b \div g2
  IN  IF a = 0 \/ c = 0 THEN Zero
      ELSE IF MulFits(a1, c1) /\ MulFits(b1, d1)
      THEN <<"N", a1 * c1, b1 * d1>>
      ELSE U("num")

NRecip(x) == Num(x[3], x[2])            \* x # 0

\* x / y for y # 0
NDiv(x, y) == NMul(x, NRecip(y))

\* x ^ k for a natural number k, by squaring (recursion depth log k)
RECURSIVE NPowNat(_, _)
NPowNat(x, k) ==
  IF k = 0 THEN One
  ELSE IF k % 2 = 1
       THEN LET p == NPowNat(x, k - 1) IN IF IsU(p) THEN p ELSE NMul(p, x)
       ELSE LET h == NPowNat(x, k \div 2) IN IF IsU(h) THEN h ELSE NMul(h, h)

\* -1, 0, 1 for x < y, x = y, x > y;  2 = "not decidable within 32 bits"
NCmp(x, y) ==
  LET a == x[2]  b == x[3]  c == y[2]  d == y[3] IN
  IF Sgn(a) # Sgn(c) THEN (IF Sgn(a) < Sgn(c) THEN -1 ELSE 1)
  ELSE IF MulFits(a, d) /\ MulFits(c, b)
       THEN Sgn(a * d - c * b)
       ELSE 2

--------------------------------------------------------------------------
(* text: sequences of character codes (ASCII fragment)                    *)

IsDigit(c)  == c >= 48 /\ c <= 57
IsUpper(c)  == c >= 65 /\ c <= 90
IsLetter(c) == IsUpper(c) \/ (c >= 97 /\ c <= 122)

\* Excel compares text without regard to case
Lower(s) == [i \in 1..Len(s) |-> IF IsUpper(s[i]) THEN s[i] + 32 ELSE s[i]]

\* lexicographic order of two code sequences: -1, 0, 1
RECURSIVE SeqCmp(_, _, _)
SeqCmp(s, t, i) ==
  IF i > Len(s) THEN (IF i > Len(t) THEN 0 ELSE -1)
  ELSE IF i > Len(t) THEN 1
  ELSE IF s[i] < t[i] THEN -1
  ELSE IF s[i] > t[i] THEN 1
  ELSE SeqCmp(s, t, i + 1)

TextCmp(s, t) == SeqCmp(Lower(s), Lower(t), 1)

(* The statement fixes "case-insensitive" and nothing else about the order *)
(* of two texts.  Where the code-point order and Excel's collation (symbols*)
(* before digits before letters; hyphen and apostrophe ignored) could      *)
(* differ, the *order* of two unequal texts is left open; only texts made  *)
(* of space, full stop, digits and letters are ordered here.               *)
OrderSafe(s) == \A i \in 1..Len(s) :
                   s[i] = 32 \/ s[i] = 46 \/ IsDigit(s[i]) \/ IsLetter(s[i])

RECURSIVE LTrim(_)
LTrim(s) == IF Len(s) = 0 THEN s
            ELSE IF s[1] = 32 THEN LTrim(Tail(s)) ELSE s
RECURSIVE RTrim(_)
RTrim(s) == IF Len(s) = 0 THEN s
            ELSE IF s[Len(s)] = 32 THEN RTrim(SubSeq(s, 1, Len(s) - 1)) ELSE s
Trim(s) == RTrim(LTrim(s))

\* a run of at most 9 decimal digits from position i: <<value, count, next>>
RECURSIVE Run(_, _, _, _)
Run(s, i, acc, cnt) ==
  IF i > Len(s) THEN <<acc, cnt, i>>
  ELSE IF IsDigit(s[i]) /\ cnt < 9
       THEN Run(s, i + 1, acc * 10 + (s[i] - 48), cnt + 1)
       ELSE <<acc, cnt, i>>

At(s, i) == IF i >= 1 /\ i <= Len(s) THEN s[i] ELSE 0

(* Characters that make Excel's text-to-number conversion depend on        *)
(* locale, currency, date and time formats ("3%", "$3", "1,000", "1/2",    *)
(* "1:30", "(3)"), and anything outside printable ASCII: not decided here. *)
GrayChar(c) == c \in {36, 37, 39, 40, 41, 44, 47, 58} \/ c < 32 \/ c > 126

LowerIs(s, w) == Lower(s) = w
TrueWord  == <<116, 114, 117, 101>>              \* "true"
FalseWord == <<102, 97, 108, 115, 101>>          \* "false"

(* Numeric text, as the statement uses the word: an optionally signed       *)
(* decimal numeral with optional fraction and optional exponent,           *)
(* surrounded by optional spaces:                                          *)
(*     sp* [+-]? ( d+ [. d*] | . d+ ) ( [eE] [+-]? d+ )? sp*               *)
(* Result: the number; #VALUE! for text that is not numeric;               *)
(* U("any") where Excel's answer depends on things not modelled (gray      *)
(* characters, inner spaces, inner hyphens as in dates, the words          *)
(* TRUE/FALSE as text, exponents or digit strings beyond the 32-bit        *)
(* fragment).                                                              *)
ParseNum(s) ==
  LET t      == Trim(s)
      n      == Len(t)
      sl     == IF At(t, 1) = 43 \/ At(t, 1) = 45 THEN 1 ELSE 0
      sg     == IF At(t, 1) = 45 THEN -1 ELSE 1
      ip     == Run(t, sl + 1, 0, 0)
      dot    == At(t, ip[3]) = 46
      fp     == IF dot THEN Run(t, ip[3] + 1, 0, 0) ELSE <<0, 0, ip[3]>>
      me     == fp[3]                              \* end of the mantissa
      hasE   == At(t, me) = 69 \/ At(t, me) = 101
      el     == IF hasE /\ (At(t, me + 1) = 43 \/ At(t, me + 1) = 45) THEN 1 ELSE 0
      eg     == IF hasE /\ At(t, me + 1) = 45 THEN -1 ELSE 1
      ex     == IF hasE THEN Run(t, me + 1 + el, 0, 0) ELSE <<0, 0, me>>
      end    == ex[3]
      capped == IsDigit(At(t, ip[3])) \/ IsDigit(At(t, fp[3])) \/ IsDigit(At(t, ex[3]))
      wellformed == /\ ip[2] + fp[2] > 0
                    /\ hasE => ex[2] > 0
                    /\ end = n + 1
      inner  == \E i \in 2..n : t[i] = 32 \/ ((t[i] = 45 \/ t[i] = 43) /\ ~(i = me + 1 /\ hasE))
  IN  IF \E i \in 1..Len(s) : GrayChar(s[i]) THEN U("any")
      ELSE IF LowerIs(t, TrueWord) \/ LowerIs(t, FalseWord) THEN U("any")
      ELSE IF capped THEN U("any")
      ELSE IF ~wellformed THEN (IF inner THEN U("any") ELSE VALUE)
      ELSE IF ip[2] + fp[2] > 9 \/ ex[1] > 9 THEN U("any")
      ELSE LET m == Num(sg * (ip[1] * Pow10(fp[2]) + fp[1]), Pow10(fp[2]))
               r == IF eg = 1 THEN NMul(m, IntV(Pow10(ex[1])))
                    ELSE NMul(m, Num(1, Pow10(ex[1])))
           IN  IF IsU(r) THEN U("any") ELSE r

--------------------------------------------------------------------------
(* rendering of values as text (what & concatenates)                      *)

RECURSIVE NatDigits(_)
NatDigits(n) == IF n < 10 THEN <<48 + n>>
                ELSE NatDigits(n \div 10) \o <<48 + (n % 10)>>

\* least k <= 9 such that d divides 10^k, else -1
RECURSIVE DecPlaces(_, _)
DecPlaces(d, k) == IF k > 9 THEN -1
                   ELSE IF Pow10(k) % d = 0 THEN k ELSE DecPlaces(d, k + 1)

ZeroPad(ds, k) == [i \in 1..k |-> IF i <= k - Len(ds) THEN 48 ELSE ds[i - (k - Len(ds))]]

NoRender == <<-1>>          \* "rendering not modelled"

(* General format: integers as digits ("3", never "3.0"), finite decimals  *)
(* as sign, integer part, ".", fraction without trailing zeros.  Not       *)
(* modelled: non-terminating fractions (15 significant digits in Excel,    *)
(* 17 in a binary float's repr), magnitudes below 1E-4 (where scientific   *)
(* notation sets in).                                                      *)
RenderNum(x) ==
  LET n == x[2]  d == x[3]
      sign == IF n < 0 THEN <<45>> ELSE <<>>
  IN  IF d = 1 THEN sign \o NatDigits(Abs(n))
      ELSE LET k == DecPlaces(d, 0) IN
           IF k = -1 THEN NoRender
           ELSE IF Abs(n) <= (d - 1) \div 10000 THEN NoRender
           ELSE IF ~MulFits(Abs(n), Pow10(k) \div d) THEN NoRender
           ELSE LET m == Abs(n) * (Pow10(k) \div d)
                IN  sign \o NatDigits(m \div Pow10(k)) \o <<46>>
                         \o ZeroPad(NatDigits(m % Pow10(k)), k)

TrueText  == <<84, 82, 85, 69>>                  \* "TRUE"
FalseText == <<70, 65, 76, 83, 69>>              \* "FALSE"

\* blank renders as the empty text, logicals as TRUE / FALSE
Render(v) == CASE IsBlank(v) -> <<>>
               [] IsNumV(v)  -> RenderNum(v)
               [] IsBool(v)  -> IF v[2] = 1 THEN TrueText ELSE FalseText
               [] IsText(v)  -> v[2]

--------------------------------------------------------------------------
(* coercion used by the arithmetic operators                              *)

\* number, #VALUE!, or U
ToNum(v) == CASE IsNumV(v)  -> v
              [] IsBool(v)  -> IntV(v[2])
              [] IsBlank(v) -> Zero
              [] IsText(v)  -> ParseNum(v[2])
              [] OTHER      -> v

(* What every binary operator does before looking at the operator: an      *)
(* error operand is the result, the left one first.  <<"go">> = no error.  *)
(* A U operand of kind "any" might itself be an error, so it hides what    *)
(* comes after it.                                                         *)
Go == <<"go">>
Propagate(a, b) ==
  IF IsErr(a) THEN a
  ELSE IF IsU(a) /\ a[2] = "any" THEN U("any")
  ELSE IF IsErr(b) THEN b
  ELSE IF IsU(b) /\ b[2] = "any" THEN U("any")
  ELSE Go

(* x ^ y on numbers.                                                       *)
(*   integral y >= 0: repeated product; 0^0 is left open (Excel: #NUM!,    *)
(*                    mathematics and pycel: 1; the statement is silent)   *)
(*   integral y < 0 : 1 / x^|y|, and 0^negative is a division by zero      *)
(*   fractional y   : negative x has no real power: #NUM!;                 *)
(*                    0^positive = 0, 0^negative = #DIV/0!;                *)
(*                    positive x: irrational in general, U("num")          *)
(* A result beyond the range of a double (|r| >= 1E309 for sure when the   *)
(* integer part of |x| has L digits and (L-1)*floor(y) >= 309) is #NUM!;   *)
(* when the bound L*ceil(y) <= 308 proves it finite it is a number; in     *)
(* between it is left open.                                                *)
PowMag(x, lo, hi) ==                   \* |x| > 1, the exponent is in [lo, hi], lo >= 0
  LET q == Abs(x[2]) \div x[3]
      L == NumDigits(q)
  IN  IF ~MulFits(L, hi) THEN (IF lo = 0 THEN U("any") ELSE NUM)
      ELSE IF (L - 1) * lo >= 309 THEN NUM
      ELSE IF L * hi <= 308 THEN U("num")
      ELSE U("any")

NPow(x, y) ==
  IF IsIntegral(y)
  THEN LET k == y[2] IN
       IF k = 0 THEN (IF IsZero(x) THEN U("any") ELSE One)
       ELSE IF IsZero(x) THEN (IF k > 0 THEN Zero ELSE DIV0)
       ELSE LET base == IF k > 0 THEN x ELSE NRecip(x)
                r    == NPowNat(base, Abs(k))
            IN  IF ~IsU(r) THEN r
                ELSE IF Abs(base[2]) > base[3] THEN PowMag(base, Abs(k), Abs(k))
                ELSE U("num")                    \* |base| < 1: tends to 0
  ELSE IF x[2] < 0 THEN NUM
  ELSE IF IsZero(x) THEN (IF y[2] > 0 THEN Zero ELSE DIV0)
  ELSE IF x = One THEN One
  ELSE LET base == IF y[2] > 0 THEN x ELSE NRecip(x)     \* result = base ^ |y|
           fl   == Abs(y[2]) \div y[3]                    \* floor |y|
       IN  IF base[2] > base[3] THEN PowMag(base, fl, fl + 1)
           ELSE U("num")                         \* in (0, 1]

\* + - * / ^ : coerce both sides, the left coercion failure first
Arith(op, a, b) ==
  LET p == Propagate(a, b) IN
  IF p # Go THEN p
  ELSE LET x == IF IsU(a) THEN a ELSE ToNum(a)
           y == IF IsU(b) THEN b ELSE ToNum(b)
       IN  IF IsErr(x) THEN x
           ELSE IF IsU(x) /\ x[2] # "num" THEN U("any")
           ELSE IF IsErr(y) THEN y
           ELSE IF IsU(y) /\ y[2] # "num" THEN U("any")
           ELSE IF IsU(x) \/ IsU(y)
                THEN (IF op \in {"+", "-", "*"} THEN U("num") ELSE U("any"))
           ELSE CASE op = "+" -> NAdd(x, y)
                  [] op = "-" -> NSub(x, y)
                  [] op = "*" -> NMul(x, y)
                  [] op = "/" -> IF IsZero(y) THEN DIV0 ELSE NDiv(x, y)
                  [] op = "^" -> NPow(x, y)

\* unary minus and percent are arithmetic on one operand
Negate(a)  == Arith("-", Zero, a)
Percent(a) == Arith("/", a, IntV(100))

\* &: the renderings, joined
Concat(a, b) ==
  LET p == Propagate(a, b) IN
  IF p # Go THEN p
  ELSE IF IsU(a) \/ IsU(b) THEN U("text")
  ELSE LET r == Render(a)  s == Render(b) IN
       IF r = NoRender \/ s = NoRender THEN U("text") ELSE Text(r \o s)

--------------------------------------------------------------------------
(* the comparison order: numbers < text < logicals; within numbers by      *)
(* value, within text case-insensitively, FALSE < TRUE; a blank operand    *)
(* takes the neutral value of the other side's type (0, "", FALSE), two    *)
(* blanks are equal.  Numeric text is text here: "3" = 3 is FALSE.         *)

Neutral(v) == CASE IsText(v) -> Text(<<>>)
                [] IsBool(v) -> FALSEV
                [] OTHER     -> Zero

Rank(v) == CASE IsNumV(v) -> 0 [] IsText(v) -> 1 [] IsBool(v) -> 2

\* -1, 0, 1 (2 = numbers too large to compare in 32 bits) for values
\* that are numbers, text, logicals or blank
Cmp3(a, b) ==
  LET x == IF IsBlank(a) THEN Neutral(b) ELSE a
      y == IF IsBlank(b) THEN Neutral(a) ELSE b
  IN  IF Rank(x) # Rank(y) THEN (IF Rank(x) < Rank(y) THEN -1 ELSE 1)
      ELSE CASE IsNumV(x) -> NCmp(x, y)
             [] IsText(x) -> TextCmp(x[2], y[2])
             [] IsBool(x) -> Sgn(x[2] - y[2])

Holds(op, c) == CASE op = "="  -> c = 0
                  [] op = "<>" -> c # 0
                  [] op = "<"  -> c < 0
                  [] op = "<=" -> c <= 0
                  [] op = ">"  -> c > 0
                  [] op = ">=" -> c >= 0

\* two unequal texts whose relative order the statement does not fix
OrderOpen(a, b) == /\ IsText(a) /\ IsText(b)
                   /\ TextCmp(a[2], b[2]) # 0
                   /\ ~(OrderSafe(a[2]) /\ OrderSafe(b[2]))

Compare(op, a, b) ==
  LET p == Propagate(a, b) IN
  IF p # Go THEN p
  ELSE IF IsU(a) \/ IsU(b) THEN U("bool")
  ELSE LET c == Cmp3(a, b) IN
       IF c = 2 THEN U("bool")
       ELSE IF op \notin {"=", "<>"} /\ OrderOpen(a, b) THEN U("bool")
       ELSE Bool(IF Holds(op, c) THEN 1 ELSE 0)

--------------------------------------------------------------------------
BinaryOps  == {"+", "-", "*", "/", "^", "&", "=", "<>", "<", "<=", ">", ">="}
CompareOps == {"=", "<>", "<", "<=", ">", ">="}
ArithOps   == {"+", "-", "*", "/", "^"}
UnaryOps   == {"u-", "u+", "%"}        \* prefix minus, prefix plus, postfix percent

\* every operator as a total function on the universe
Apply(op, a, b) ==
  CASE op \in ArithOps   -> Arith(op, a, b)
    [] op = "&"          -> Concat(a, b)
    [] op \in CompareOps -> Compare(op, a, b)

\* prefix plus is the identity (no coercion: +"a" is "a"); a blank operand
\* of a formula shows as 0 only at the very end (see Formula)
Apply1(op, a) ==
  CASE op = "u-" -> IF IsErr(a) THEN a ELSE Negate(a)
    [] op = "%"  -> IF IsErr(a) THEN a ELSE Percent(a)
    [] op = "u+" -> a

--------------------------------------------------------------------------
(* membership in the universe, for the Total laws *)
IsCanonNum(v) == /\ Len(v) = 3 /\ v[3] > 0 /\ GCD(Abs(v[2]), v[3]) = 1
IsResult(v) ==          \* what an operator may return
  CASE IsNumV(v) -> IsCanonNum(v)
    [] IsText(v) -> \A i \in 1..Len(v[2]) : v[2][i] >= 0
    [] IsBool(v) -> v[2] \in {0, 1}
    [] IsErr(v)  -> v[2] \in ErrorCodes
    [] IsU(v)    -> v[2] \in {"num", "bool", "text", "any"}
    [] OTHER     -> FALSE
=============================================================================
