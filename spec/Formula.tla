------------------------------ MODULE Formula ------------------------------
(***************************************************************************)
(* C02 -- formula translation is meaning-preserving.                       *)
(*                                                                         *)
(* Two things live here.                                                   *)
(*                                                                         *)
(* 1. A GENERATOR: a token automaton (toks, stk).  Every action appends    *)
(*    one legal token; every state with no open parenthesis that ends in   *)
(*    an operand is one well-formed formula, so TLC enumerates all         *)
(*    formulas of the grammar up to MaxLen tokens (all nestings, all       *)
(*    redundant parentheses) and -simulate samples longer ones.            *)
(*                                                                         *)
(* 2. The REFERENCE SEMANTICS, written from the statement: a recursive-    *)
(*    descent parser (negation binds tightest, then %, then ^, then * /,   *)
(*    then + -, then &, then the comparisons; every binary level           *)
(*    associates to the left; parentheses override) producing a tree, and  *)
(*    an evaluator over exact rationals whose operator meaning is          *)
(*    ExcelValues (the C10 definitions).  An independent printer (minimal  *)
(*    parentheses from a precedence table) must invert the parser, and     *)
(*    wrapping any sub-expression in parentheses must not change tree or   *)
(*    value: TLC checks both on every generated formula.                   *)
(*                                                                         *)
(* Tokens are strings.  Operand tokens are spelled as in Excel ("2",       *)
(* "0.5", "1E2", "TRUE", "#N/A"), text literals are named ("T1" ..), so    *)
(* are number literals whose spelling is the point ("N1" ..: leading or    *)
(* trailing zeros, no integer part; the wrapper gives their characters and *)
(* their value is what ExcelValues!ParseNum reads from them), and cell     *)
(* references ("A1", "B1", and "Q1" ..: cells of other sheets, whose names  *)
(* the wrapper gives) are bound by an environment.  Prefix                 *)
(* minus/plus are the tokens "u-"/"u+" (rendered "-"/"+"): the generator   *)
(* knows which one it means, the implementation has to find out.           *)
(*                                                                         *)
(* Function calls.  SUM( and IF( take values.  ROW( and COLUMN( take a     *)
(* REFERENCE: what stands between their parentheses is not evaluated to a  *)
(* value, it denotes a cell.  OFFSET( takes a reference and two values and *)
(* denotes a reference again; where a value is wanted the cell it denotes  *)
(* is read.  LEN( takes a value and makes the characters of a text         *)
(* countable wherever the text stands.  The generator keeps the two kinds  *)
(* of argument positions apart: in a reference position only a reference   *)
(* token, a parenthesised reference or OFFSET( may stand, and no operator  *)
(* applies to it (Excel refuses =ROW(2) and =ROW(-A1) on entry).           *)
(***************************************************************************)
EXTENDS ExcelValues, Json

CONSTANTS Operands,   \* set of operand tokens the generator may use
          Binary,     \* set of binary operator tokens  (subset of BinaryOps)
          Prefix,     \* subset of {"u-", "u+"}
          Postfix,    \* subset of {"%"}
          Calls,      \* subset of CallToks
          Parens,     \* BOOLEAN: may the generator open a parenthesis
          MaxLen,     \* bound on the number of tokens
          MinExport,  \* export only formulas of at least this many tokens
          Lit,        \* [literal token -> value]
          LitDev,     \* [some literal tokens -> value]: what these literals denote under a
                      \* known deviation of the implementation (only used to tell that
                      \* deviation from any other discrepancy, see Deviant below)
          Refs,       \* set of reference tokens
          RefAt,      \* [reference token -> <<sheet, row, column>>]: the cell it denotes
          Envs        \* sequence of environments [reference token -> value]

VARIABLES toks,       \* the token string so far
          stk,        \* open brackets, innermost last: "P" parenthesis or LEN( ,
                      \* "S" SUM( , "I1" "I2" "I3" IF( with that many arguments begun,
                      \* "O1" "O2" "O3" OFFSET( likewise (the first is a reference),
                      \* "R" ROW( or COLUMN( , "Q" parenthesis around a reference
          out         \* <<>> while the formula is incomplete, else what the
                      \* reference semantics says about it: <<tree, spans of
                      \* sub-expressions, value under each environment,
                      \* end of parse, magnitude scale under each environment,
                      \* value under each environment with the literals of LitDev
                      \* read the deviant way (<<>> when the formula has none)>>
                      \* (a function of toks, kept in the state to be computed once)
vars == <<toks, stk, out>>

--------------------------------------------------------------------------
(* the generator *)

CallToks == {"SUM(", "IF(", "ROW(", "COLUMN(", "OFFSET(", "LEN("}
Openers == {"("} \cup CallToks
Last == toks[Len(toks)]
\* the next token must start an operand
Expect == IF toks = <<>> THEN TRUE
          ELSE Last \in BinaryOps \cup {"u-", "u+", ","} \cup Openers

\* fewest tokens still needed to reach a complete formula
RECURSIVE CloseCost(_)
CloseCost(s) == IF s = <<>> THEN 0
                ELSE (CASE Head(s) \in {"I1", "O1"} -> 5          \* , x , x )
                        [] Head(s) \in {"I2", "O2"} -> 3          \* , x )
                        [] OTHER -> 1) + CloseCost(Tail(s))
Room(expect, s) == Len(toks) + 1 + (IF expect THEN 1 ELSE 0) + CloseCost(s) <= MaxLen

Top == stk[Len(stk)]
Pop == SubSeq(stk, 1, Len(stk) - 1)
Push(f) == Append(stk, f)

\* the innermost open bracket wants a reference, not a value
RefPos == IF stk = <<>> THEN FALSE ELSE Top \in {"R", "Q", "O1"}
\* the frame a call opens
Frame(f) == CASE f = "SUM(" -> "S" [] f = "IF(" -> "I1" [] f = "OFFSET(" -> "O1"
              [] f \in {"ROW(", "COLUMN("} -> "R" [] f = "LEN(" -> "P"

AddOperand == /\ Expect
              /\ \E t \in (IF RefPos THEN Operands \cap Refs ELSE Operands) :
                    /\ Room(FALSE, stk)
                    /\ toks' = Append(toks, t) /\ UNCHANGED stk
AddPrefix  == /\ Expect /\ ~RefPos
              /\ \E t \in Prefix :
                    /\ Room(TRUE, stk)
                    /\ toks' = Append(toks, t) /\ UNCHANGED stk
AddOpen    == /\ Expect /\ Parens
              /\ LET fr == IF RefPos THEN "Q" ELSE "P" IN
                    /\ Room(TRUE, Push(fr))
                    /\ toks' = Append(toks, "(") /\ stk' = Push(fr)
AddCall    == /\ Expect
              /\ \E f \in (IF RefPos THEN Calls \cap {"OFFSET("} ELSE Calls) :
                    /\ Room(TRUE, Push(Frame(f)))
                    /\ toks' = Append(toks, f) /\ stk' = Push(Frame(f))
AddPostfix == /\ ~Expect /\ ~RefPos
              /\ \E t \in Postfix :
                    /\ Room(FALSE, stk)
                    /\ toks' = Append(toks, t) /\ UNCHANGED stk
AddBinary  == /\ ~Expect /\ ~RefPos
              /\ \E t \in Binary :
                    /\ Room(TRUE, stk)
                    /\ toks' = Append(toks, t) /\ UNCHANGED stk
AddComma   == /\ ~Expect
              /\ IF stk = <<>> THEN FALSE ELSE Top \in {"S", "I1", "I2", "O1", "O2"}
              /\ LET fr == CASE Top = "S" -> "S" [] Top = "I1" -> "I2" [] Top = "I2" -> "I3"
                              [] Top = "O1" -> "O2" [] Top = "O2" -> "O3"
                 IN  /\ Room(TRUE, Append(Pop, fr))
                     /\ toks' = Append(toks, ",") /\ stk' = Append(Pop, fr)
AddClose   == /\ ~Expect
              /\ IF stk = <<>> THEN FALSE ELSE Top \in {"P", "S", "I3", "O3", "R", "Q"}
              /\ toks' = Append(toks, ")") /\ stk' = Pop

Append1 == \/ AddOperand \/ AddPrefix \/ AddOpen \/ AddCall
           \/ AddPostfix \/ AddBinary \/ AddComma \/ AddClose

\* one well-formed formula: nothing open, ends in an operand
IsComplete(t, s) == /\ t # <<>> /\ s = <<>>
                    /\ t[Len(t)] \notin BinaryOps \cup {"u-", "u+", ","} \cup Openers
Complete == IsComplete(toks, stk)

TypeOK == /\ Len(toks) <= MaxLen
          /\ \A p \in 1..Len(stk) :
                stk[p] \in {"P", "S", "I1", "I2", "I3", "O1", "O2", "O3", "R", "Q"}

--------------------------------------------------------------------------
(* the reference parser: token string -> tree                              *)
(*   <<"lit", token>>              operand                                 *)
(*   <<"un", op, x>>               prefix "u-" "u+" or postfix "%"         *)
(*   <<"bin", op, x, y>>                                                   *)
(*   <<"call", f, <<args>>>>                                               *)
(* Parentheses leave no node (they only steer the parser).  A parse        *)
(* result is [t: tree, n: index after it, lo: index of its first token,    *)
(* sp: the spans <<lo, hi>> of all its sub-expressions].                   *)

LevelOps(l) == CASE l = 1 -> {"=", "<>", "<", "<=", ">", ">="}
                 [] l = 2 -> {"&"}
                 [] l = 3 -> {"+", "-"}
                 [] l = 4 -> {"*", "/"}
                 [] l = 5 -> {"^"}

Tok(t, p) == IF p >= 1 /\ p <= Len(t) THEN t[p] ELSE "<end>"

RECURSIVE PExpr(_, _, _), PLoop(_, _, _), PPctLoop(_, _), PNeg(_, _), PPrim(_, _),
          PArgs(_, _, _, _)

\* level l: a sequence of level-(l+1) operands, folded to the left
PExpr(t, p, l) == IF l = 6 THEN PPctLoop(t, PNeg(t, p))
                  ELSE PLoop(t, PExpr(t, p, l + 1), l)

PLoop(t, left, l) ==
  IF Tok(t, left.n) \in LevelOps(l)
  THEN LET right == PExpr(t, left.n + 1, l + 1)
       IN  PLoop(t, [t  |-> <<"bin", t[left.n], left.t, right.t>>,
                     n  |-> right.n,
                     lo |-> left.lo,
                     sp |-> left.sp \o right.sp \o <<<<left.lo, right.n - 1>>>>], l)
  ELSE left

\* postfix percent applies to what negation produced
PPctLoop(t, x) ==
  IF Tok(t, x.n) = "%"
  THEN PPctLoop(t, [t |-> <<"un", "%", x.t>>, n |-> x.n + 1, lo |-> x.lo,
                    sp |-> x.sp \o <<<<x.lo, x.n>>>>])
  ELSE x

\* prefix operators bind tightest
PNeg(t, p) ==
  IF Tok(t, p) \in {"u-", "u+"}
  THEN LET x == PNeg(t, p + 1)
       IN  [t |-> <<"un", t[p], x.t>>, n |-> x.n, lo |-> p,
            sp |-> x.sp \o <<<<p, x.n - 1>>>>]
  ELSE PPrim(t, p)

PPrim(t, p) ==
  IF Tok(t, p) = "("
  THEN LET e == PExpr(t, p + 1, 1)               \* t[e.n] = ")"
       IN  [t |-> e.t, n |-> e.n + 1, lo |-> p, sp |-> e.sp \o <<<<p, e.n>>>>]
  ELSE IF Tok(t, p) \in CallToks
  THEN LET a == PArgs(t, p + 1, <<>>, <<>>)      \* t[a.n] = ")"
       IN  [t |-> <<"call", t[p], a.t>>, n |-> a.n + 1, lo |-> p,
            sp |-> a.sp \o <<<<p, a.n>>>>]
  ELSE [t |-> <<"lit", t[p]>>, n |-> p + 1, lo |-> p, sp |-> <<<<p, p>>>>]

\* arguments separated by commas, up to the closing parenthesis
PArgs(t, p, acc, sp) ==
  LET e == PExpr(t, p, 1) IN
  IF Tok(t, e.n) = ","
  THEN PArgs(t, e.n + 1, Append(acc, e.t), sp \o e.sp)
  ELSE [t |-> Append(acc, e.t), n |-> e.n, sp |-> sp \o e.sp]

Parse(t) == PExpr(t, 1, 1)
Tree(t) == Parse(t).t

--------------------------------------------------------------------------
(* an independent printer: minimal parentheses from a precedence table     *)

Prec(x) == CASE x[1] = "lit"  -> 8
             [] x[1] = "call" -> 8
             [] x[1] = "un"   -> (IF x[2] = "%" THEN 6 ELSE 7)
             [] x[1] = "bin"  -> (CASE x[2] = "^" -> 5
                                    [] x[2] \in {"*", "/"} -> 4
                                    [] x[2] \in {"+", "-"} -> 3
                                    [] x[2] = "&" -> 2
                                    [] OTHER -> 1)

RECURSIVE Unparse(_), UnparseArgs(_, _)
InParens(s) == <<"(">> \o s \o <<")">>
\* x printed as an operand that must bind at least as tightly as level m
UnparseAt(x, m) == IF Prec(x) >= m THEN Unparse(x) ELSE InParens(Unparse(x))
Unparse(x) ==
  CASE x[1] = "lit"  -> <<x[2]>>
    [] x[1] = "call" -> <<x[2]>> \o UnparseArgs(x[3], 1) \o <<")">>
    [] x[1] = "un"   -> (IF x[2] = "%" THEN UnparseAt(x[3], 6) \o <<"%">>
                         ELSE <<x[2]>> \o UnparseAt(x[3], 7))
    [] x[1] = "bin"  -> UnparseAt(x[3], Prec(x)) \o <<x[2]>> \o UnparseAt(x[4], Prec(x) + 1)
UnparseArgs(a, p) == IF p > Len(a) THEN <<>>
                   ELSE (IF p > 1 THEN <<",">> ELSE <<>>) \o Unparse(a[p]) \o UnparseArgs(a, p + 1)

--------------------------------------------------------------------------
(* the evaluator.  Ev returns <<value, exact, scale>>.                     *)
(*                                                                         *)
(* exact = FALSE marks a number that a binary floating-point evaluation    *)
(* (Excel's as much as pycel's) need not reproduce exactly: some number    *)
(* on the way to it is not a dyadic rational (0.1, 1/3, 3%).  Such a       *)
(* number is still compared with a tolerance by the harness, but what      *)
(* depends on it discontinuously (a comparison, a rendering by &, a test   *)
(* for zero, integrality of an exponent) is left open: U.                  *)
(* scale = an integer bound on the magnitude of every number met on the    *)
(* way: the tolerance is relative to it, because 2%%+100-100 carries the   *)
(* rounding error of 100, not of 0.0002 (cancellation).                    *)

RECURSIVE IsPow2(_)
IsPow2(d) == IF d = 1 THEN TRUE ELSE IF d % 2 = 1 THEN FALSE ELSE IsPow2(d \div 2)
Dyadic(v) == IF IsNumV(v) THEN IsPow2(v[3]) ELSE TRUE

Max2(a, b) == IF a >= b THEN a ELSE b
Mag(v) == IF IsNumV(v) THEN (Abs(v[2]) + v[3] - 1) \div v[3] ELSE 0      \* ceil |v|

\* SUM of scalar arguments.  How SUM treats text and logicals depends on
\* whether they are typed in or referenced (C14); here only numbers and
\* errors are decided.
RECURSIVE SumFrom(_, _, _)
SumFrom(vals, p, acc) ==
  IF p > Len(vals) THEN acc
  ELSE LET v == vals[p] IN
       IF IsErr(v) THEN v
       ELSE IF ~IsNumV(v) THEN U("any")
       ELSE LET s == NAdd(acc, v) IN IF IsU(s) THEN s ELSE SumFrom(vals, p + 1, s)

RECURSIVE MaxScale(_, _)
MaxScale(vals, p) == IF p > Len(vals) THEN 0 ELSE Max2(vals[p][3], MaxScale(vals, p + 1))

\* References as what a reference position holds: <<"ref", sheet, row, column>>.
IsRefV(r) == r[1] = "ref"
RefV(q) == <<"ref", RefAt[q][1], RefAt[q][2], RefAt[q][3]>>
REFERR == Err("#REF!")
\* reading the cell a reference denotes: the environment binds the cells
\* that have a token; what any other cell holds is not said
Deref(r, env) == IF \E q \in Refs : RefV(q) = r
                 THEN env[CHOOSE q \in Refs : RefV(q) = r]
                 ELSE U("any")

\* the rows / columns argument of OFFSET, a = <<value, exact, scale>>: a whole
\* number, and a blank cell counts as 0.  How OFFSET reads a fraction (Excel
\* truncates), a text or a logical belongs to the lookup functions: left open.
OffN(a) == LET v == a[1] IN
           IF IsErr(v) \/ IsU(v) THEN v
           ELSE IF IsBlank(v) THEN Zero
           ELSE IF IsNumV(v) /\ a[2] /\ IsIntegral(v) THEN v
           ELSE U("any")

\* lit: the meaning of the literal tokens (Lit, or Lit overridden by LitDev)
RECURSIVE Ev(_, _, _), RefEv(_, _, _)

\* what a reference expression denotes: a reference, an error value, or U
RefEv(x, env, lit) ==
  CASE x[1] = "lit" /\ x[2] \in Refs -> RefV(x[2])
    [] x[1] = "call" /\ x[2] = "OFFSET(" ->
         \* OFFSET(reference, rows, columns): the cell that many rows below
         \* and columns to the right, #REF! beyond the edge of the sheet; an
         \* error argument is the result (two different ones: left open)
         LET base == RefEv(x[3][1], env, lit)
             dr == OffN(Ev(x[3][2], env, lit))
             dc == OffN(Ev(x[3][3], env, lit))
             e1 == IsErr(base)   e2 == IsErr(dr)   e3 == IsErr(dc)
             anyU == IsU(base) \/ IsU(dr) \/ IsU(dc)
         IN  IF e1 \/ e2 \/ e3
             THEN LET first == IF e1 THEN base ELSE IF e2 THEN dr ELSE dc
                      same == (e1 => base = first) /\ (e2 => dr = first) /\ (e3 => dc = first)
                  IN  IF same /\ ~anyU THEN first ELSE U("any")
             ELSE IF anyU THEN U("any")
             ELSE LET r == base[3] + dr[2]
                      c == base[4] + dc[2]
                  IN  IF r < 1 \/ c < 1 \/ r > 1048576 \/ c > 16384 THEN REFERR
                      ELSE <<"ref", base[2], r, c>>
    [] OTHER -> U("any")        \* no reference expression (the generator puts none here)

Ev(x, env, lit) ==
  CASE x[1] = "lit" ->
         LET v == IF x[2] \in Refs THEN env[x[2]] ELSE lit[x[2]] IN <<v, Dyadic(v), Mag(v)>>
    [] x[1] = "un" ->
         LET a == Ev(x[3], env, lit)
             v == Apply1(x[2], a[1])
         IN  <<v, a[2] /\ Dyadic(v), Max2(a[3], Mag(v))>>
    [] x[1] = "bin" ->
         LET a == Ev(x[3], env, lit)
             b == Ev(x[4], env, lit)
             op == x[2]
             inexact == (IsNumV(a[1]) /\ ~a[2]) \/ (IsNumV(b[1]) /\ ~b[2])
             open == /\ inexact /\ ~IsErr(a[1]) /\ ~IsErr(b[1])
                     /\ \/ op \in CompareOps \/ op = "&"
                        \/ op = "/" /\ ~b[2] /\ ToNum(b[1]) = Zero
                        \/ op = "^" /\ IsNumV(ToNum(a[1])) /\ ToNum(a[1])[2] <= 0
             v == IF open THEN U("any") ELSE Apply(op, a[1], b[1])
         IN  <<v, a[2] /\ b[2] /\ Dyadic(v), Max2(Max2(a[3], b[3]), Mag(v))>>
    [] x[1] = "call" /\ x[2] = "SUM(" ->
         \* (an argument that is a reference made by a function,
         \* SUM(OFFSET(A1,0,0),1), is the cell it denotes like any other)
         LET vals == [q \in 1..Len(x[3]) |-> Ev(x[3][q], env, lit)]
             v == SumFrom([q \in 1..Len(vals) |-> vals[q][1]], 1, Zero)
         IN  <<v, (\A q \in 1..Len(vals) : vals[q][2]) /\ Dyadic(v),
               Max2(MaxScale(vals, 1), Mag(v))>>
    [] x[1] = "call" /\ x[2] = "IF(" ->
         \* IF(condition, then, else): only the chosen branch counts.
         \* Left open: a text or inexact condition, the two-argument form,
         \* a blank reference coming out of a branch.
         LET c == Ev(x[3][1], env, lit)
             cv == c[1]
         IN  IF IsErr(cv) THEN <<cv, TRUE, 0>>
             ELSE IF IsU(cv) \/ IsText(cv) \/ ~c[2] \/ Len(x[3]) # 3 THEN <<U("any"), TRUE, 0>>
             ELSE LET truth == IF IsBlank(cv) THEN FALSE ELSE cv[2] # 0
                      br == Ev(x[3][IF truth THEN 2 ELSE 3], env, lit)
                  IN  IF IsBlank(br[1]) THEN <<U("any"), TRUE, 0>> ELSE br
    [] x[1] = "call" /\ x[2] \in {"ROW(", "COLUMN("} ->
         \* the row / column number of the cell the argument denotes; the
         \* cell is not read
         LET r == RefEv(x[3][1], env, lit)
             v == IF IsRefV(r) THEN IntV(IF x[2] = "ROW(" THEN r[3] ELSE r[4]) ELSE r
         IN  <<v, TRUE, Mag(v)>>
    [] x[1] = "call" /\ x[2] = "OFFSET(" ->
         \* where a value is wanted the cell is read
         LET r == RefEv(x, env, lit)
             v == IF IsRefV(r) THEN Deref(r, env) ELSE r
         IN  <<v, Dyadic(v), Mag(v)>>
    [] x[1] = "call" /\ x[2] = "LEN(" ->
         \* the number of characters of a text (Excel counts a character
         \* beyond U+FFFF twice: left open).  How a number or a logical is
         \* rendered before counting belongs to the text functions: left open.
         LET a == Ev(x[3][1], env, lit)[1]
             v == IF IsErr(a) \/ IsU(a) THEN a
                  ELSE IF IsText(a) /\ \A i \in 1..Len(a[2]) : a[2][i] <= 65535
                  THEN IntV(Len(a[2]))
                  ELSE U("any")
         IN  <<v, TRUE, Mag(v)>>

\* OFFSET by a fraction, a text or a logical (see OffN) is left open with
\* everything that may follow from it, a failure of the whole calculation
\* included: a formula that holds such a call anywhere, also in a branch
\* that IF does not choose, has no defined value.
RECURSIVE Unsettled(_, _, _), UnsettledArgs(_, _, _, _)
Unsettled(x, env, lit) ==
  CASE x[1] = "lit" -> FALSE
    [] x[1] = "un" -> Unsettled(x[3], env, lit)
    [] x[1] = "bin" -> Unsettled(x[3], env, lit) \/ Unsettled(x[4], env, lit)
    [] x[1] = "call" ->
         \/ UnsettledArgs(x[3], 1, env, lit)
         \/ /\ x[2] = "OFFSET("
            /\ \/ IsU(OffN(Ev(x[3][2], env, lit)))
               \/ IsU(OffN(Ev(x[3][3], env, lit)))
UnsettledArgs(a, p, env, lit) ==
  IF p > Len(a) THEN FALSE
  ELSE Unsettled(a[p], env, lit) \/ UnsettledArgs(a, p + 1, env, lit)

\* A formula that evaluates to a blank cell shows 0.  Left open: the formula
\* is a call that denotes a reference (=OFFSET(A1,0,0)) and that cell is blank.
\* Excel shows 0; the test suite of pycel asks for "no value" there
\* (tests/lib/test_lookup.py: INDIRECT to an empty range).
Shown(x, v) == IF ~IsBlank(v) THEN v
               ELSE IF x[1] = "call" /\ x[2] = "OFFSET(" THEN U("any") ELSE Zero
Result(x, env, lit) == IF Unsettled(x, env, lit) THEN U("any")
                       ELSE Shown(x, Ev(x, env, lit)[1])
TreeValue(x, env) == Result(x, env, Lit)
Value(t, env) == TreeValue(Tree(t), env)

--------------------------------------------------------------------------
(* the machine: the generator, with the reference semantics attached to    *)
(* every complete formula                                                  *)
\* A known deviation of the implementation (it has one representation for
\* the text "#N/A" and the error #N/A) is described as another reading of
\* some literals: LitDev.  The reference value never depends on it; the
\* deviant value is exported next to it so that the harness can attribute a
\* discrepancy to the deviation exactly when the implementation returns
\* the deviant value of that very formula.
LitDeviant == [x \in DOMAIN Lit |-> IF x \in DOMAIN LitDev THEN LitDev[x] ELSE Lit[x]]
Deviant(t) == \E p \in 1..Len(t) : t[p] \in DOMAIN LitDev

Meaning(t, s) == IF IsComplete(t, s)
                 THEN LET pr == Parse(t)
                          ev == [e \in 1..Len(Envs) |-> Ev(pr.t, Envs[e], Lit)]
                      IN  <<pr.t, pr.sp, [e \in 1..Len(Envs) |-> Result(pr.t, Envs[e], Lit)], pr.n,
                            [e \in 1..Len(Envs) |-> ev[e][3]],
                            IF Deviant(t)
                            THEN [e \in 1..Len(Envs) |-> Result(pr.t, Envs[e], LitDeviant)]
                            ELSE <<>>>>
                 ELSE <<>>

Init == toks = <<>> /\ stk = <<>> /\ out = <<>>
Next == Append1 /\ out' = Meaning(toks', stk')
Spec == Init /\ [][Next]_vars

--------------------------------------------------------------------------
(* sanity of the reference itself, checked on every complete formula *)

Wrap(t, lo, hi) == SubSeq(t, 1, lo - 1) \o <<"(">> \o SubSeq(t, lo, hi) \o <<")">>
                   \o SubSeq(t, hi + 1, Len(t))

\* the printer inverts the parser
PrintParse == Complete => Tree(Unparse(out[1])) = out[1]

\* a redundant pair of parentheses around any sub-expression (the whole
\* formula included) changes neither the tree nor, hence, the value
RedundantParens == Complete =>
  /\ out[4] = Len(toks) + 1                        \* the parser consumed everything
  /\ \E q \in 1..Len(out[2]) : out[2][q] = <<1, Len(toks)>>
  /\ \A q \in 1..Len(out[2]) :
        Tree(Wrap(toks, out[2][q][1], out[2][q][2])) = out[1]

\* the value is a value
ValueTotal ==
   Complete => \A e \in 1..Len(Envs) : IsResult(out[3][e])

--------------------------------------------------------------------------
(* export: one JSON line per complete formula *)
Export ==
  IF Complete /\ Len(toks) >= MinExport
  THEN PrintT(ToJson([toks |-> toks, sp |-> out[2], vals |-> out[3], scale |-> out[5],
                      dev |-> out[6]]))
  ELSE TRUE
=============================================================================
