CONSTANTS
  Operands <- ArgOperands
  Binary = {}
  Prefix = {}
  Postfix = {}
  Calls <- ArgCalls
  Parens = FALSE
  MaxLen = 11
  MinExport = 1
  Lit <- MCLit
  LitDev <- MCLitDev
  Refs <- MCRefs
  RefAt <- MCRefAt
  Envs <- MCEnvs
SPECIFICATION Spec
INVARIANT TypeOK
INVARIANT PrintParse
INVARIANT RedundantParens
INVARIANT ValueTotal
INVARIANT Export
