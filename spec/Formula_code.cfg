CONSTANTS
  Operands <- CodeOperands
  Binary = {}
  Prefix = {}
  Postfix = {}
  Calls <- CodeCalls
  Parens = FALSE
  MaxLen = 13
  MinExport = 1
  Lit <- MCLit
  LitDev <- MCLitDev
  Refs <- MCRefs
  RefAt <- MCRefAt
  Envs <- MCEnvs
SPECIFICATION Spec
INVARIANT TypeOK
INVARIANT PrintParse
INVARIANT RedundantParens
INVARIANT ValueTotal
INVARIANT Export
