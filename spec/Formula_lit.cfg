CONSTANTS
  Operands <- LitOperands
  Binary <- LitBinary
  Prefix = {"u-"}
  Postfix = {"%"}
  Calls = {}
  Parens = FALSE
  MaxLen = 3
  MinExport = 1
  Lit <- MCLit
  LitDev <- MCLitDev
  Refs <- MCRefs
  RefAt <- MCRefAt
  Envs <- MCEnvs
SPECIFICATION Spec
INVARIANT TypeOK
INVARIANT PrintParse
INVARIANT RedundantParens
INVARIANT ValueTotal
INVARIANT Export
