CONSTANTS
  Operands <- PrecOperands
  Binary <- AllBinary
  Prefix = {"u-", "u+"}
  Postfix = {"%"}
  Calls = {"SUM(", "IF("}
  Parens = TRUE
  MaxLen = 5
  MinExport = 1
  Lit <- MCLit
  LitDev <- MCLitDev
  Refs <- MCRefs
  Envs <- MCEnvs
SPECIFICATION Spec
INVARIANT TypeOK
INVARIANT PrintParse
INVARIANT RedundantParens
INVARIANT ValueTotal
INVARIANT Export
