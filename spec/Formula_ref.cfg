CONSTANTS
  Operands <- RefOperands
  Binary <- RefBinary
  Prefix = {"u-"}
  Postfix = {}
  Calls <- AllCalls
  Parens = TRUE
  MaxLen = 13
  MinExport = 4
  Lit <- MCLit
  LitDev <- MCLitDev
  Refs <- MCRefs
  RefAt <- MCRefAt
  Envs <- MCEnvs
SPECIFICATION Spec
INVARIANT TypeOK
INVARIANT PrintParse
INVARIANT RedundantParens
INVARIANT ValueTotal
INVARIANT Export
