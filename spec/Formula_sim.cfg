CONSTANTS
  Operands <- AllOperands
  Binary <- AllBinary
  Prefix = {"u-", "u+"}
  Postfix = {"%"}
  Calls <- AllCalls
  Parens = TRUE
  MaxLen = 9
  MinExport = 6
  Lit <- MCLit
  LitDev <- MCLitDev
  Refs <- MCRefs
  RefAt <- MCRefAt
  Envs <- MCEnvs
SPECIFICATION Spec
INVARIANT TypeOK
INVARIANT PrintParse
INVARIANT RedundantParens
INVARIANT ValueTotal
INVARIANT Export
