------------------------------ MODULE Logical ------------------------------
(***************************************************************************)
(* X01 -- Excel's logical and information functions                        *)
(*                                                                         *)
(*   AND OR XOR NOT  IF IFERROR IFNA IFS SWITCH CHOOSE                     *)
(*   ISBLANK ISERR ISERROR ISNA ISLOGICAL ISNUMBER ISTEXT ISNONTEXT        *)
(*   ISEVEN ISODD N NA                                                     *)
(*                                                                         *)
(* defined on the value universe of ExcelValues.  Every function is given  *)
(* as the SET of results Excel's documented behaviour allows (Allowed):    *)
(* a singleton wherever the behaviour is established, more than one        *)
(* element where it is disputable (each such place is marked "relation"    *)
(* below), <<"U", "any">> where the answer depends on text-to-number       *)
(* conversions that ExcelValues leaves open.                               *)
(*                                                                         *)
(* A result <<"Z">> (blank) means: the function hands back the blank cell  *)
(* it was given (IF, CHOOSE, IFS, SWITCH return one of their arguments);   *)
(* a formula consisting of just this call shows 0.                         *)
(*                                                                         *)
(* The enumerator machine: the state is a function (an entry of Sigs) and  *)
(* the argument list built so far, every argument an index into the pool   *)
(* its position draws from; the actions append one more argument.  Every   *)
(* state is exported as one vector for the real code.                      *)
(***************************************************************************)
EXTENDS ExcelValues, Json, FiniteSets

CONSTANTS Sigs,     \* sequence of [f |-> function name, sig |-> sequence of pool names]:
                    \* position p of f's argument list draws from Pools[sig[p]]
          Pools     \* record: pool name |-> sequence of values (pools "I", "J": of items)

VARIABLES fi,       \* index into Sigs
          args,     \* sequence of pool indices, Len(args) <= Len(Sigs[fi].sig)
          res       \* Allowed(..) at this state, {} while the argument list is too
                    \* short to be a call (kept in the state: computed once)
vars == <<fi, args, res>>

B2V(p) == IF p THEN TRUEV ELSE FALSEV          \* a TLA+ truth value as an Excel logical
B2N(p) == IF p THEN 1 ELSE 0

--------------------------------------------------------------------------
(* one value as a condition: NOT, IF, IFS.  Numbers count as "non-zero",   *)
(* a blank cell as FALSE, the words TRUE / FALSE as text (any case) as the *)
(* logical, any other text (also numeric text and "") is #VALUE!, an error *)
(* is itself.                                                              *)

IsTrueText(v)  == IsText(v) /\ LowerIs(v[2], TrueWord)
IsFalseText(v) == IsText(v) /\ LowerIs(v[2], FalseWord)

Truth(x) == Bool(IF IsZero(x) THEN 0 ELSE 1)       \* x a number

Cond(v) == CASE IsErr(v)   -> v
             [] IsBool(v)  -> v
             [] IsNumV(v)  -> Truth(v)
             [] IsBlank(v) -> FALSEV
             [] IsText(v)  -> IF IsTrueText(v) THEN TRUEV
                              ELSE IF IsFalseText(v) THEN FALSEV ELSE VALUE

NotF(v) == LET c == Cond(v) IN IF IsErr(c) THEN c ELSE Bool(1 - c[2])

\* IF(c, a, b); with the third argument omitted (no comma) the FALSE case
\* gives the logical FALSE (not 0)
If3(c, a, b) == LET t == Cond(c) IN
                IF IsErr(t) THEN t ELSE IF t = TRUEV THEN a ELSE b
If2(c, a) == If3(c, a, FALSEV)

--------------------------------------------------------------------------
(* AND, OR, XOR.  An argument is an item:                                  *)
(*    <<"lit", v>>   a value written in the argument list itself (v not    *)
(*                   blank)                                                *)
(*    <<"ref", v>>   a reference to one cell holding v                     *)
(*    <<"rng", vs>>  a reference to a one-dimensional range of cells       *)
(* In a referenced cell text and blanks are ignored; text given directly   *)
(* counts when it is the word TRUE or FALSE and is #VALUE! otherwise.      *)
(* Numbers count as non-zero.  The first error present is the result.      *)
(* When nothing logical is left the result is #VALUE!.                     *)

Lit(v)  == <<"lit", v>>
Ref(v)  == <<"ref", v>>
Rng(vs) == <<"rng", vs>>

Skip    == <<"skip">>          \* contributes nothing
BadText == <<"bad">>           \* directly given text that is not TRUE / FALSE

InCell(v) == CASE IsErr(v)  -> v
               [] IsBool(v) -> v
               [] IsNumV(v) -> Truth(v)
               [] OTHER     -> Skip

Direct(v) == IF IsText(v)
             THEN (IF IsTrueText(v) THEN TRUEV
                   ELSE IF IsFalseText(v) THEN FALSEV ELSE BadText)
             ELSE InCell(v)

Contribution(item) ==
  CASE item[1] = "lit" -> <<Direct(item[2])>>
    [] item[1] = "ref" -> <<InCell(item[2])>>
    [] item[1] = "rng" -> [i \in 1..Len(item[2]) |-> InCell(item[2][i])]

RECURSIVE Flatten(_)
Flatten(items) == IF Len(items) = 0 THEN <<>>
                  ELSE Contribution(Head(items)) \o Flatten(Tail(items))

HasErr(c)   == \E i \in 1..Len(c) : IsErr(c[i])
HasBad(c)   == \E i \in 1..Len(c) : c[i] = BadText
FirstErr(c) == c[CHOOSE i \in 1..Len(c) : IsErr(c[i]) /\ \A j \in 1..(i - 1) : ~IsErr(c[j])]
Trues(c)    == Cardinality({i \in 1..Len(c) : c[i] = TRUEV})
Falses(c)   == Cardinality({i \in 1..Len(c) : c[i] = FALSEV})

(* relation: when text that is #VALUE! and a genuine error are both        *)
(* present, which of the two Excel reports is not established; both        *)
(* allowed.                                                                *)
Junction(kind, items) ==
  LET c == Flatten(items)
      t == Trues(c)
      f == Falses(c)
      plain == IF t + f = 0 THEN VALUE
               ELSE CASE kind = "AND" -> B2V(f = 0)
                      [] kind = "OR"  -> B2V(t > 0)
                      [] kind = "XOR" -> B2V(t % 2 = 1)
  IN  IF HasErr(c) THEN (IF HasBad(c) THEN {FirstErr(c), VALUE} ELSE {FirstErr(c)})
      ELSE IF HasBad(c) THEN {VALUE}
      ELSE {plain}

--------------------------------------------------------------------------
(* IFERROR(x, y), IFNA(x, y): x unless x is an error (is #N/A), else y.    *)
(* relation: when the value handed back is a blank cell Microsoft's        *)
(* documentation says it is treated as the empty text, Excel itself shows  *)
(* 0: both allowed.                                                        *)
Soft(v) == IF IsBlank(v) THEN {Blank, Text(<<>>)} ELSE {v}

IfError(x, y) == Soft(IF IsErr(x) THEN y ELSE x)
IfNa(x, y)    == Soft(IF x = NA THEN y ELSE x)

(* IFS(c1, v1, c2, v2, ..): the value of the first condition that is TRUE; *)
(* a condition that is an error, or text that is not a logical (#VALUE!),  *)
(* met before that is the result; no condition TRUE: #N/A.  Conditions and *)
(* values after the deciding one do not matter.                            *)
Ifs(a) ==
  LET n    == Len(a) \div 2
      c(k) == Cond(a[2 * k - 1])
      stop == {k \in 1..n : c(k) # FALSEV}
  IN  IF stop = {} THEN NA
      ELSE LET k == CHOOSE q \in stop : \A j \in stop : q <= j
           IN  IF c(k) = TRUEV THEN a[2 * k] ELSE c(k)

(* SWITCH(e, m1, r1, [m2, r2, ..], [default]): the result paired with the  *)
(* first m equal to e, equality being that of the = operator (type-ranked: *)
(* 1 is not "1" and not TRUE; text without regard to case); no match: the  *)
(* default, #N/A when there is none.  An error e is the result.            *)
(* relations:                                                              *)
(*  - a blank cell against 0, "" or FALSE (the = operator says equal;      *)
(*    whether SWITCH does is not established): both outcomes allowed;      *)
(*    two blank cells are equal, a blank and anything else are not         *)
(*  - an error among the m's, r's or as the default: Excel's SWITCH is     *)
(*    lazy as far as is known (an unused error result does not matter),    *)
(*    but whether an error m that is met ends the search or is skipped,    *)
(*    and whether unused error arguments matter after all, is not          *)
(*    established: the first error in argument order and both lazy         *)
(*    readings are allowed                                                 *)
Match(e, m) ==
  LET eq == Compare("=", e, m) = TRUEV IN
  IF IsBlank(e) /\ IsBlank(m) THEN "yes"
  ELSE IF IsBlank(e) \/ IsBlank(m) THEN (IF eq THEN "open" ELSE "no")
  ELSE IF eq THEN "yes" ELSE "no"

RECURSIVE SwitchSet(_, _, _)
SwitchSet(e, rest, errEnds) ==
  IF Len(rest) = 0 THEN {NA}
  ELSE IF Len(rest) = 1 THEN {rest[1]}
  ELSE LET m    == rest[1]
           miss == SwitchSet(e, SubSeq(rest, 3, Len(rest)), errEnds)
       IN  IF IsErr(m) THEN (IF errEnds THEN {m} ELSE miss)
           ELSE LET k == Match(e, m) IN
                IF k = "yes" THEN {rest[2]}
                ELSE IF k = "no" THEN miss
                ELSE {rest[2]} \cup miss

Switch(e, rest) ==
  IF IsErr(e) THEN {e}
  ELSE LET lazy == SwitchSet(e, rest, TRUE) \cup SwitchSet(e, rest, FALSE)
       IN  IF HasErr(rest) THEN lazy \cup {FirstErr(rest)} ELSE lazy

(* CHOOSE(index, v1, .., vn): the index as a number (logicals, blank and   *)
(* numeric text are converted like an operand of +; other text is          *)
(* #VALUE!), truncated toward zero; outside 1..n: #VALUE!.  An error index *)
(* is the result; the values not chosen do not matter.                     *)
Trunc(x) == Sgn(x[2]) * (Abs(x[2]) \div x[3])

Choose(idx, vals) ==
  IF IsErr(idx) THEN idx
  ELSE LET n == ToNum(idx) IN
       IF IsU(n) THEN U("any")             \* e.g. the text "TRUE" as an index
       ELSE IF IsErr(n) THEN n
       ELSE LET k == Trunc(n) IN
            IF k < 1 \/ k > Len(vals) THEN VALUE ELSE vals[k]

--------------------------------------------------------------------------
(* the IS functions: type tests, never an error                            *)
IsBlankF(v)   == B2V(IsBlank(v))
IsErrorF(v)   == B2V(IsErr(v))
IsNaF(v)      == B2V(v = NA)
IsErrF(v)     == B2V(IsErr(v) /\ v # NA)
IsLogicalF(v) == B2V(IsBool(v))
IsNumberF(v)  == B2V(IsNumV(v))
IsTextF(v)    == B2V(IsText(v))             \* the empty text "" is text
IsNonTextF(v) == B2V(~IsText(v))            \* blank cells and errors are not text

(* ISEVEN / ISODD: the number truncated toward zero; the sign does not     *)
(* matter; a blank cell is 0; logicals and text that is not a number are   *)
(* #VALUE!; an error is itself.                                            *)
(* relation: numeric text ("3") is converted by Excel as far as is known,  *)
(* Microsoft's text says non-numeric -> #VALUE!: both allowed.             *)
OddNum(x) == Abs(Trunc(x)) % 2 = 1

Parity(odd, v) ==
  LET ans(x) == B2V(OddNum(x) = odd) IN
  CASE IsErr(v)   -> {v}
    [] IsNumV(v)  -> {ans(v)}
    [] IsBlank(v) -> {ans(Zero)}
    [] IsBool(v)  -> {VALUE}
    [] IsText(v)  -> IF IsTrueText(v) \/ IsFalseText(v) THEN {VALUE}
                     ELSE LET n == ParseNum(v[2]) IN
                          IF IsNumV(n) THEN {ans(n), VALUE}
                          ELSE IF IsU(n) THEN {U("any")}
                          ELSE {VALUE}

(* N: a number is itself, TRUE is 1, FALSE is 0, an error is itself,       *)
(* anything else (text, also numeric text) is 0.                           *)
(* relation: for a blank cell Excel gives the number 0; handing back the   *)
(* blank (which shows as 0) is accepted as well.                           *)
NF(v) == CASE IsErr(v)   -> {v}
           [] IsNumV(v)  -> {v}
           [] IsBool(v)  -> {IntV(v[2])}
           [] IsText(v)  -> {Zero}
           [] IsBlank(v) -> {Zero, Blank}

--------------------------------------------------------------------------
(* every function on an argument list a (values; items for AND OR XOR)     *)

ArityOK(f, n) ==
  CASE f \in {"AND", "OR", "XOR"}  -> n >= 1
    [] f = "IF"                    -> n \in {2, 3}
    [] f \in {"IFERROR", "IFNA"}   -> n = 2
    [] f = "IFS"                   -> n >= 2 /\ n % 2 = 0
    [] f = "SWITCH"                -> n >= 3
    [] f = "CHOOSE"                -> n >= 2
    [] f = "NA"                    -> n = 0
    [] OTHER                       -> n = 1

Allowed(f, a) ==
  IF ~ArityOK(f, Len(a)) THEN {}
  ELSE CASE f \in {"AND", "OR", "XOR"} -> Junction(f, a)
         [] f = "NOT"       -> {NotF(a[1])}
         [] f = "IF"        -> {IF Len(a) = 2 THEN If2(a[1], a[2]) ELSE If3(a[1], a[2], a[3])}
         [] f = "IFERROR"   -> IfError(a[1], a[2])
         [] f = "IFNA"      -> IfNa(a[1], a[2])
         [] f = "IFS"       -> {Ifs(a)}
         [] f = "SWITCH"    -> Switch(a[1], Tail(a))
         [] f = "CHOOSE"    -> {Choose(a[1], Tail(a))}
         [] f = "ISBLANK"   -> {IsBlankF(a[1])}
         [] f = "ISERR"     -> {IsErrF(a[1])}
         [] f = "ISERROR"   -> {IsErrorF(a[1])}
         [] f = "ISNA"      -> {IsNaF(a[1])}
         [] f = "ISLOGICAL" -> {IsLogicalF(a[1])}
         [] f = "ISNUMBER"  -> {IsNumberF(a[1])}
         [] f = "ISTEXT"    -> {IsTextF(a[1])}
         [] f = "ISNONTEXT" -> {IsNonTextF(a[1])}
         [] f = "ISEVEN"    -> Parity(FALSE, a[1])
         [] f = "ISODD"     -> Parity(TRUE, a[1])
         [] f = "N"         -> NF(a[1])
         [] f = "NA"        -> {NA}

Functions == {"AND", "OR", "XOR", "NOT", "IF", "IFERROR", "IFNA", "IFS", "SWITCH",
              "CHOOSE", "ISBLANK", "ISERR", "ISERROR", "ISNA", "ISLOGICAL",
              "ISNUMBER", "ISTEXT", "ISNONTEXT", "ISEVEN", "ISODD", "N", "NA"}

--------------------------------------------------------------------------
(* the enumerator *)

F      == Sigs[fi].f
Sig    == Sigs[fi].sig
ValsOf(i, ar) == [p \in 1..Len(ar) |-> Pools[Sigs[i].sig[p]][ar[p]]]
ResAt(i, ar)  == Allowed(Sigs[i].f, ValsOf(i, ar))
V      == ValsOf(fi, args)             \* the argument list at the cursor
Complete == ArityOK(F, Len(args))

ItemPools == {"I", "J"}

Init == /\ fi \in 1..Len(Sigs)
        /\ args = <<>>
        /\ res = ResAt(fi, <<>>)

\* one more scalar argument
AppendValue ==
  /\ Len(args) < Len(Sig)
  /\ Sig[Len(args) + 1] \notin ItemPools
  /\ \E x \in 1..Len(Pools[Sig[Len(args) + 1]]) :
        LET na == Append(args, x) IN args' = na /\ res' = ResAt(fi, na)
  /\ UNCHANGED fi

\* one more item (directly given value, cell or range) of AND / OR / XOR
AppendItem ==
  /\ Len(args) < Len(Sig)
  /\ Sig[Len(args) + 1] \in ItemPools
  /\ \E x \in 1..Len(Pools[Sig[Len(args) + 1]]) :
        LET na == Append(args, x) IN args' = na /\ res' = ResAt(fi, na)
  /\ UNCHANGED fi

Next == AppendValue \/ AppendItem
Spec == Init /\ [][Next]_vars

TypeOK == /\ fi \in 1..Len(Sigs)
          /\ F \in Functions
          /\ Len(args) <= Len(Sig)
          /\ \A p \in 1..Len(args) : args[p] \in 1..Len(Pools[Sig[p]])
          /\ res = ResAt(fi, args)

--------------------------------------------------------------------------
(* the laws *)

\* something is allowed for every call, and only values of the universe
Total == /\ Complete = (res # {})
         /\ \A r \in res : IsBlank(r) \/ IsResult(r)

\* an item given directly that is a number or a logical
PlainItem(it) == it[1] = "lit" /\ (IsNumV(it[2]) \/ IsBool(it[2]))
AllPlain == \A p \in 1..Len(V) : PlainItem(V[p])
NegItems == [p \in 1..Len(V) |-> Lit(NotF(V[p][2]))]

\* De Morgan, where no text, blank or error is involved
DeMorganCase == F \in {"AND", "OR"} /\ Len(args) >= 1 /\ AllPlain
DeMorgan == DeMorganCase =>
   {NotF(r) : r \in res} = Junction(IF F = "AND" THEN "OR" ELSE "AND", NegItems)

\* XOR is parity; AND is "no FALSE"; OR is "some TRUE" (directly, on plain items)
PlainCount == Cardinality({p \in 1..Len(V) : Cond(V[p][2]) = TRUEV})
Parity3Case == F \in {"AND", "OR", "XOR"} /\ Len(args) >= 1 /\ AllPlain
Parity3 == Parity3Case =>
   res = {CASE F = "XOR" -> B2V(PlainCount % 2 = 1)
            [] F = "AND" -> B2V(PlainCount = Len(V))
            [] F = "OR"  -> B2V(PlainCount > 0)}

\* a longer list folds: F(a, .., y, z) = F(F(a, .., y), z) when F(a, .., y) is a logical
FoldCase == /\ F \in {"AND", "OR", "XOR"} /\ Len(args) >= 2
            /\ \E b \in {TRUEV, FALSEV} : Junction(F, SubSeq(V, 1, Len(V) - 1)) = {b}
Fold == FoldCase =>
   LET pre == CHOOSE b \in {TRUEV, FALSEV} : Junction(F, SubSeq(V, 1, Len(V) - 1)) = {b}
   IN  res = Junction(F, <<Lit(pre), V[Len(V)]>>)

\* without errors and #VALUE! text the order of the items does not matter
NoTrouble == LET c == Flatten(V) IN ~HasErr(c) /\ ~HasBad(c)
CommuteCase == F \in {"AND", "OR", "XOR"} /\ Len(args) = 2 /\ NoTrouble
Commute == CommuteCase => res = Junction(F, <<V[2], V[1]>>)

\* the first error present is the result, whatever else is there
FirstErrorCase == F \in {"AND", "OR", "XOR"} /\ Len(args) >= 1 /\ HasErr(Flatten(V))
FirstError == FirstErrorCase => FirstErr(Flatten(V)) \in res /\ res \subseteq {FirstErr(Flatten(V)), VALUE}

\* NOT NOT x is x as a condition; NOT never maps a logical to itself
NotNot == F = "NOT" /\ Complete =>
   LET x == V[1]  n == NotF(x) IN
   /\ res = {n}
   /\ IsErr(Cond(x)) => n = Cond(x)
   /\ ~IsErr(Cond(x)) => (IsBool(n) /\ n # Cond(x) /\ NotF(n) = Cond(x))

\* IFERROR(x, y) = x iff x is not an error; IFNA alike; the result is an
\* error only if both are
IfErrorLaw == F \in {"IFERROR", "IFNA"} /\ Complete =>
   LET x == V[1]  y == V[2]
       caught == IF F = "IFERROR" THEN IsErrorF(x) = TRUEV ELSE IsNaF(x) = TRUEV
   IN  /\ ~caught => res = Soft(x)
       /\ caught  => res = Soft(y)
       /\ (F = "IFERROR" /\ \E r \in res : IsErr(r)) => (IsErr(x) /\ IsErr(y))
       /\ (F = "IFNA" /\ ~IsErr(y)) => NA \notin res

\* IF picks exactly one branch, decided by the condition alone
IfPicksCase == F = "IF" /\ Len(args) = 3
IfPicks == IfPicksCase =>
   LET c == Cond(V[1]) IN
   /\ Cardinality(res) = 1
   /\ IsErr(c) => res = {c}
   /\ c = TRUEV => res = {V[2]}
   /\ c = FALSEV => res = {V[3]}
IfOmitted == (F = "IF" /\ Len(args) = 2) =>
   /\ Cond(V[1]) = FALSEV => res = {FALSEV}
   /\ Cond(V[1]) # FALSEV => res = {If3(V[1], V[2], V[2])}

\* ISERR = ISERROR and not ISNA
IsErrLaw == F = "ISERR" /\ Complete =>
   res = {B2V(IsErrorF(V[1]) = TRUEV /\ IsNaF(V[1]) = FALSEV)}

\* exactly one of ISNUMBER ISTEXT ISLOGICAL ISBLANK ISERROR holds;
\* ISNONTEXT is the complement of ISTEXT; the IS functions give logicals
Partition == (F \in {"ISNUMBER", "ISTEXT", "ISLOGICAL", "ISBLANK", "ISERROR", "ISNONTEXT",
                     "ISNA", "ISERR"} /\ Complete) =>
   LET x == V[1] IN
   /\ B2N(IsNumberF(x) = TRUEV) + B2N(IsTextF(x) = TRUEV) + B2N(IsLogicalF(x) = TRUEV)
        + B2N(IsBlankF(x) = TRUEV) + B2N(IsErrorF(x) = TRUEV) = 1
   /\ IsNonTextF(x) = NotF(IsTextF(x))
   /\ \A r \in res : IsBool(r)
   /\ Cardinality(res) = 1

\* IFS equals a chain of IFs ending in #N/A
RECURSIVE IfChain(_)
IfChain(a) == IF Len(a) = 0 THEN NA
              ELSE If3(a[1], a[2], IfChain(SubSeq(a, 3, Len(a))))
IfsChain == F = "IFS" /\ Complete => res = {IfChain(V)}

\* SWITCH with a default never gives #N/A (unless #N/A is among the arguments);
\* an exact hit on the first value without errors around decides
SwitchDefaultCase == F = "SWITCH" /\ Complete /\ Len(args) % 2 = 0
                     /\ \A p \in 1..Len(V) : V[p] # NA
SwitchDefault == SwitchDefaultCase => NA \notin res
SwitchHit == (F = "SWITCH" /\ Complete /\ ~HasErr(V) /\ Match(V[1], V[2]) = "yes") => res = {V[3]}
SwitchNoDefault == (F = "SWITCH" /\ Complete /\ Len(args) % 2 = 1 /\ ~HasErr(V)
                    /\ \A q \in 1..((Len(V) - 1) \div 2) : Match(V[1], V[2 * q]) = "no") => res = {NA}

\* CHOOSE(i, ..) is the i-th for a whole number i in range; fractions truncate
ChooseIthCase == F = "CHOOSE" /\ Complete /\ IsNumV(V[1]) /\ Trunc(V[1]) >= 1 /\ Trunc(V[1]) <= Len(V) - 1
ChooseIth == /\ ChooseIthCase => res = {V[1 + Trunc(V[1])]}
             /\ (F = "CHOOSE" /\ Complete /\ IsNumV(V[1]) /\ ~ChooseIthCase) => res = {VALUE}
             /\ (F = "CHOOSE" /\ Complete /\ IsNumV(V[1])) => res = {Choose(IntV(Trunc(V[1])), Tail(V))}

\* ISEVEN is the complement of ISODD on numbers, the sign and the fraction do not matter
EvenOddCase == F \in {"ISEVEN", "ISODD"} /\ Complete /\ IsNumV(V[1])
EvenOdd == EvenOddCase =>
   LET x == V[1] IN
   /\ Parity(TRUE, x) = {NotF(r) : r \in Parity(FALSE, x)}
   /\ Parity(TRUE, x) = Parity(TRUE, NNeg(x))
   /\ Parity(TRUE, x) = Parity(TRUE, IntV(Trunc(x)))
   /\ Cardinality(res) = 1 /\ \A r \in res : IsBool(r)

\* N gives a number or the error it was given; N(N(x)) = N(x)
NLaw == F = "N" /\ Complete =>
   /\ \A r \in res : IsNumV(r) \/ IsBlank(r) \/ (IsErr(r) /\ r = V[1])
   /\ \A r \in res : ~IsBlank(r) => NF(r) = {r}

--------------------------------------------------------------------------
(* export: one JSON line per state.  ante = which law antecedents held     *)
(* here (the harness refuses a run in which a law was never exercised).    *)
Export ==
  PrintT(ToJson([at |-> <<fi>> \o args, f |-> F, sig |-> Sig, args |-> V, allow |-> res,
     ok |-> B2N(Complete),
     ante |-> [demorgan |-> B2N(DeMorganCase), parity |-> B2N(Parity3Case),
               fold |-> B2N(FoldCase), commute |-> B2N(CommuteCase),
               firsterr |-> B2N(FirstErrorCase),
               ifpicks |-> B2N(IfPicksCase), ifomitted |-> B2N(F = "IF" /\ Len(args) = 2),
               notnot |-> B2N(F = "NOT" /\ Complete),
               iferror |-> B2N(F \in {"IFERROR", "IFNA"} /\ Complete),
               ifs |-> B2N(F = "IFS" /\ Complete),
               switchdefault |-> B2N(SwitchDefaultCase),
               chooseith |-> B2N(ChooseIthCase), evenodd |-> B2N(EvenOddCase),
               partition |-> B2N(F = "ISNUMBER" /\ Complete),
               nlaw |-> B2N(F = "N" /\ Complete)]]))
=============================================================================
