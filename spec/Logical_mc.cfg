CONSTANTS
  Sigs <- MCSigs
  Pools <- MCPools
SPECIFICATION Spec
INVARIANT TypeOK
INVARIANT Total
INVARIANT DeMorgan
INVARIANT Parity3
INVARIANT Fold
INVARIANT Commute
INVARIANT FirstError
INVARIANT NotNot
INVARIANT IfErrorLaw
INVARIANT IfPicks
INVARIANT IfOmitted
INVARIANT IsErrLaw
INVARIANT Partition
INVARIANT IfsChain
INVARIANT SwitchDefault
INVARIANT SwitchHit
INVARIANT SwitchNoDefault
INVARIANT ChooseIth
INVARIANT EvenOdd
INVARIANT NLaw
INVARIANT Export
