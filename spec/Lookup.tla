------------------------------- MODULE Lookup -------------------------------
(***************************************************************************)
(* C16 -- Excel's lookup family as linear-scan RELATIONS.                  *)
(*                                                                         *)
(* MATCH(v, a, t) is specified as the SET of results the property allows   *)
(* (MatchAllowed): one position for t = 0, any position holding the best   *)
(* value for t = 1 / -1 on sorted data, "anything" where the statement is  *)
(* silent.  INDEX, VLOOKUP, HLOOKUP and LOOKUP are specified on top of it  *)
(* ("the cell INDEX returns at a position MATCH may find").                *)
(*                                                                         *)
(* The enumerator machine builds the lookup vector cell by cell (leading   *)
(* blanks, then values of a mixed-type pool with duplicates, then trailing *)
(* blanks) and maintains the two "sorted" flags incrementally.  TLC checks *)
(* the laws at the end of the module on every reachable vector and every   *)
(* lookup value, and Export prints each state as a test vector: arguments  *)
(* and allowed results.                                                    *)
(*                                                                         *)
(* Value encoding (tag first, so TLC never compares an integer with a      *)
(* string):  <<"Z">> blank cell, <<"N", k>> the number k, <<"B", 0|1>>     *)
(* FALSE/TRUE, <<"E", code>> an error value, <<"S", cs>> text, cs a tuple  *)
(* of one-character strings out of                                         *)
(*     "a" "A" "b" "B"   letters (case twins),                             *)
(*     "?" "*"           Excel's wildcards (in a lookup value),            *)
(*     "."               any other character that is not a letter.         *)
(***************************************************************************)
EXTENDS Integers, Sequences, FiniteSets, TLC, Json

CONSTANT Modes   \* tuple of records: what the machine enumerates (see MC_Lookup)
                 \*   pool   set of non-blank cell values to append
                 \*   look   tuple of lookup values
                 \*   maxlen longest vector
                 \*   maxz   most blanks at either end
                 \*   srt    TRUE: only vectors that stay ascending or descending
                 \*   w      0: export MATCH; 1..4: export tables of that width
                 \*          (1: the key column is the whole table -- down to
                 \*          the table of ONE cell, which is a range like any
                 \*          other: A1:A1)

VARIABLES mode,   \* index into Modes (fixed by Init)
          a,      \* the lookup vector built so far
          phase,  \* 0 leading blanks, 1 values, 2 trailing blanks
          asc,    \* non-blank cells so far are in ascending Excel order
          desc    \* ... in descending Excel order
vars == <<mode, a, phase, asc, desc>>

M == Modes[mode]

--------------------------------------------------------------------------
(* Values *)

Blank   == <<"Z">>
Num(k)  == <<"N", k>>
Txt(cs) == <<"S", cs>>
Bool(b) == <<"B", b>>
Err(e)  == <<"E", e>>

Tag(x) == x[1]
IsBlank(x) == Tag(x) = "Z"
IsErr(x)   == Tag(x) = "E"

\* Excel's order of types: numbers < text < logicals (< errors, which MATCH
\* never finds; they only take part in "is this vector sorted")
Rank(x) == CASE Tag(x) = "N" -> 0
             [] Tag(x) = "S" -> 1
             [] Tag(x) = "B" -> 2
             [] Tag(x) = "E" -> 3

Fold(c) == IF c = "A" THEN "a" ELSE IF c = "B" THEN "b" ELSE c   \* lower case
IsLetter(c) == Fold(c) \in {"a", "b"}
Code(c) == IF Fold(c) = "a" THEN 1 ELSE 2          \* collation of the letters

\* text compared without case: equal / strictly before (letters only)
TextEq(s, t) == /\ Len(s) = Len(t)
                /\ \A i \in 1..Len(s) : Fold(s[i]) = Fold(t[i])

RECURSIVE TextLess(_, _)
TextLess(s, t) ==
  IF t = <<>> THEN FALSE
  ELSE IF s = <<>> THEN TRUE
  ELSE IF Code(s[1]) < Code(t[1]) THEN TRUE
  ELSE IF Code(s[1]) > Code(t[1]) THEN FALSE
  ELSE TextLess(Tail(s), Tail(t))

\* The collation of punctuation is a locale matter the statement does not
\* fix: only text made of letters takes part in "<=".
Orderable(x) == Tag(x) = "S" => \A i \in 1..Len(x[2]) : IsLetter(x[2][i])

\* x <= y in Excel order, for non-blank orderable x, y
Leq(x, y) ==
  IF Rank(x) # Rank(y) THEN Rank(x) < Rank(y)
  ELSE CASE Tag(x) = "N" -> x[2] <= y[2]
         [] Tag(x) = "B" -> x[2] <= y[2]
         [] Tag(x) = "S" -> TextEq(x[2], y[2]) \/ TextLess(x[2], y[2])
         [] Tag(x) = "E" -> TRUE            \* errors are not ordered further

SameValue(x, y) == Leq(x, y) /\ Leq(y, x)   \* "a" and "A" are the same value

--------------------------------------------------------------------------
(* Wildcards: in MATCH type 0 (and the exact modes of V/HLOOKUP) a text    *)
(* lookup value is a pattern: ? is any one character, * any run of         *)
(* characters, everything else stands for itself without case.  A pattern  *)
(* without wildcards is therefore plain case-insensitive equality.         *)

RECURSIVE WMatch(_, _)
WMatch(p, s) ==
  IF p = <<>> THEN s = <<>>
  ELSE IF p[1] = "*"
       THEN \/ WMatch(Tail(p), s)                      \* * takes nothing
            \/ (s # <<>> /\ WMatch(p, Tail(s)))        \* * takes one more
  ELSE IF s = <<>> THEN FALSE
  ELSE /\ (p[1] = "?" \/ Fold(p[1]) = Fold(s[1]))
       /\ WMatch(Tail(p), Tail(s))

\* "cell c equals lookup value v" for an exact match: type-strict (a blank
\* or an error cell equals nothing, "1" is not 1, TRUE is not 1)
Eq0(v, c) ==
  /\ Tag(c) = Tag(v)
  /\ CASE Tag(v) = "N" -> v[2] = c[2]
       [] Tag(v) = "B" -> v[2] = c[2]
       [] Tag(v) = "S" -> WMatch(v[2], c[2])
       [] OTHER -> FALSE

--------------------------------------------------------------------------
(* Vectors *)

HasBlank(vec) == \E i \in DOMAIN vec : IsBlank(vec[i])
NonBlank(vec) == {i \in DOMAIN vec : ~IsBlank(vec[i])}

\* all cells can be ordered (no text with punctuation)
Plain(vec) == \A i \in NonBlank(vec) : Orderable(vec[i])

\* sorted in direction t (1 ascending, -1 descending); blank cells carry no
\* value and are skipped (the property puts them at the ends)
SortedDir(vec, t) ==
  \A i, j \in NonBlank(vec) :
     i < j => IF t = 1 THEN Leq(vec[i], vec[j]) ELSE Leq(vec[j], vec[i])

\* the last cell with a value, Blank if there is none
LastValue(vec) ==
  IF NonBlank(vec) = {} THEN Blank
  ELSE vec[CHOOSE i \in NonBlank(vec) : \A j \in NonBlank(vec) : j <= i]

Reverse(vec) == [i \in 1..Len(vec) |-> vec[Len(vec) + 1 - i]]

--------------------------------------------------------------------------
(* MATCH as a relation.  Results: a position 1..Len, or                    *)
NA   == 0      \* #N/A
FREE == -1     \* the statement does not constrain the result (any value,
               \* but still no exception)
SELF == -2     \* the lookup value itself (an error value propagates)

\* A blank cell holds no value: it occupies a position, equals nothing and
\* is neither below nor above anything (its tag is no value's tag).
\* The one exception: the lookup values that formulas read as "nothing",
\* 0, "" and FALSE.  Whether they find a BLANK cell is not settled by
\* "type-strict" (DESIGN section 5), so that combination is left free.
Neutral(v) == v \in {Num(0), Txt(<<>>), Bool(0)}

\* MatchRel: the relation, given whether vec counts as sorted for type t.
\* An error lookup value propagates; errors and blanks in vec never match.
MatchRel(v, vec, t, sorted) ==
  IF IsErr(v) THEN {SELF}
  ELSE IF IsBlank(v) THEN {FREE}                \* a blank lookup value
  ELSE IF Neutral(v) /\ HasBlank(vec) THEN {FREE}
  ELSE IF t = 0 THEN
     \* the first position whose cell equals v
     LET P == {i \in DOMAIN vec : Eq0(v, vec[i])}
     IN  IF P = {} THEN {NA}
         ELSE {CHOOSE i \in P : \A j \in P : i <= j}
  ELSE IF ~(Orderable(v) /\ sorted) THEN {FREE}
  ELSE
     \* t = 1: positions of the largest value <= v among the cells of v's
     \* type;  t = -1: of the smallest value >= v.  Duplicates (and case
     \* twins) give several allowed positions.
     LET C == {i \in DOMAIN vec :
                 /\ Tag(vec[i]) = Tag(v)
                 /\ IF t = 1 THEN Leq(vec[i], v) ELSE Leq(v, vec[i])}
     IN  IF C = {} THEN {NA}
         ELSE {i \in C : \A j \in C :
                  IF t = 1 THEN Leq(vec[j], vec[i]) ELSE Leq(vec[i], vec[j])}

\* "sorted in Excel order" for type t: every value can be ordered and the
\* values (blanks skipped) are in that order
IsSorted(vec, t) == t # 0 /\ Plain(vec) /\ SortedDir(vec, t)

MatchAllowed(v, vec, t) == MatchRel(v, vec, t, IsSorted(vec, t))

--------------------------------------------------------------------------
(* A binary search for type 1, the way a fast implementation does it:      *)
(* ignore the blanks at the ends, bisect on the total order (type rank     *)
(* first), then step back over cells of another type.  Law BinarySearchOK  *)
(* says its answer is always one of the allowed ones on sorted data.       *)

Lo(vec) == IF NonBlank(vec) = {} THEN 1
           ELSE CHOOSE i \in NonBlank(vec) : \A j \in NonBlank(vec) : i <= j
Hi(vec) == IF NonBlank(vec) = {} THEN 0
           ELSE CHOOSE i \in NonBlank(vec) : \A j \in NonBlank(vec) : j <= i

\* the last position in lo..hi whose cell is <= v if the cells ascend
\* (lo - 1 if there is none); ceil(log2) probes
RECURSIVE Bisect(_, _, _, _)
Bisect(v, vec, lo, hi) ==
  IF lo > hi THEN hi
  ELSE LET mid == (lo + hi) \div 2
       IN  IF Leq(vec[mid], v) THEN Bisect(v, vec, mid + 1, hi)
           ELSE Bisect(v, vec, lo, mid - 1)

RECURSIVE BackOff(_, _, _, _)
BackOff(v, vec, lo, r) ==
  IF r < lo THEN NA
  ELSE IF Tag(vec[r]) = Tag(v) THEN r
  ELSE BackOff(v, vec, lo, r - 1)

BinarySearch(v, vec) ==
  BackOff(v, vec, Lo(vec), Bisect(v, vec, Lo(vec), Hi(vec)))

--------------------------------------------------------------------------
(* Tables and INDEX / VLOOKUP / HLOOKUP / LOOKUP.  A table is a tuple of   *)
(* rows.  Results are SETS of cell values; {<<"?">>} means unconstrained.  *)

Anything == {<<"?">>}
RangeErr == {Err("#REF!"), Err("#VALUE!")}

Rows(T) == Len(T)
Cols(T) == Len(T[1])
Col(T, c) == [r \in 1..Rows(T) |-> T[r][c]]
Transpose(T) == [c \in 1..Cols(T) |-> [r \in 1..Rows(T) |-> T[r][c]]]

\* what a formula shows for the cell it was handed: a blank cell reads as
\* blank or as 0 (Excel displays 0; the statement does not care)
CellResult(x) == IF IsBlank(x) THEN {Blank, Num(0)} ELSE {x}

\* INDEX(T, r, c), r and c both given and not 0: the cell, or an error for
\* an index outside the table -- never another cell
Index(T, r, c) ==
  IF r \in 1..Rows(T) /\ c \in 1..Cols(T) THEN CellResult(T[r][c])
  ELSE RangeErr

\* INDEX(vector, i) for a single row or column
Index1(vec, i) ==
  IF i \in 1..Len(vec) THEN CellResult(vec[i]) ELSE RangeErr

\* the cells found in result vector res at the positions P that MATCH allows
AtPositions(P, res) ==
  IF FREE \in P THEN Anything
  ELSE UNION { IF p = NA THEN {Err("#N/A")} ELSE Index1(res, p) : p \in P }

\* range_lookup TRUE = MATCH type 1, FALSE = MATCH type 0 (with wildcards)
TypeOf(approx) == IF approx THEN 1 ELSE 0

\* A result index (row / column number) given with a fraction, n/d, is read
\* as its whole part: Excel truncates, VLOOKUP(v, T, 2.9) answers from column
\* 2 and an index between 0 and 1 is the index 0.  The harness calls every
\* lookup with the index k and with k + 1/2 and demands the same answer.
WholePart(n, d) == IF n >= 0 THEN n \div d ELSE -((-n) \div d)
ASSUME WholePart(29, 10) = 2 /\ WholePart(1, 2) = 0 /\ WholePart(-1, 2) = 0
       /\ WholePart(7, 2) = 3

\* a lookup with a result index k outside 1..n yields #REF!/#VALUE!, whatever
\* the lookup value is (also when nothing would be found: the statement says
\* "out-of-range indices yield #REF!/#VALUE!", and so does Excel)
OutOfRange(P) == RangeErr

VLookup(v, T, c, approx) ==
  LET P == MatchAllowed(v, Col(T, 1), TypeOf(approx))
  IN  IF IsErr(v) THEN {v} \cup (IF c \in 1..Cols(T) THEN {} ELSE RangeErr)
      ELSE IF c \notin 1..Cols(T) THEN OutOfRange(P)
      ELSE AtPositions(P, Col(T, c))

HLookup(v, T, r, approx) ==
  LET P == MatchAllowed(v, T[1], TypeOf(approx))
  IN  IF IsErr(v) THEN {v} \cup (IF r \in 1..Rows(T) THEN {} ELSE RangeErr)
      ELSE IF r \notin 1..Rows(T) THEN OutOfRange(P)
      ELSE AtPositions(P, T[r])

\* LOOKUP, vector form: approximate match in keys, answer from res
LookupVec(v, keys, res) ==
  IF IsErr(v) THEN {v} ELSE AtPositions(MatchAllowed(v, keys, 1), res)

\* LOOKUP, array form: searches the first column of a table that is square
\* or taller than wide and answers from the last column; a table wider than
\* tall is searched along its first row and answered from its last row
LookupArr(v, T) ==
  IF Rows(T) >= Cols(T) THEN LookupVec(v, Col(T, 1), Col(T, Cols(T)))
  ELSE LookupVec(v, T[1], T[Rows(T)])

\* The table the machine derives from its vector: the vector is the key
\* column, the other columns hold recognisable payload (numbers that name
\* their cell, some text, some blank cells).  Width 1 is the degenerate
\* table whose only column is searched AND answered from (VLOOKUP(v, T, 1,
\* ..) returns the key cell it found); with a vector of one cell it is the
\* 1 x 1 table, its own transpose.
Pay(r, c) == IF (r + c) % 5 = 0 THEN Blank
             ELSE IF (r + c) % 5 = 1 THEN Txt(<<"b">>)
             ELSE Num(10 * c + r)

TableOf(vec, w) ==
  [r \in 1..Len(vec) |-> [c \in 1..w |-> IF c = 1 THEN vec[r] ELSE Pay(r, c)]]

--------------------------------------------------------------------------
(* The enumerator machine *)

Init == /\ mode \in 1..Len(Modes)
        /\ a = <<>>
        /\ phase = 0
        /\ asc = TRUE
        /\ desc = TRUE

LeadBlank ==
  /\ phase = 0
  /\ Len(a) < M.maxlen
  /\ Len(a) < M.maxz
  /\ a' = Append(a, Blank)
  /\ UNCHANGED <<mode, phase, asc, desc>>

\* appending a value keeps "ascending" iff it is >= the last value so far
\* (text that cannot be ordered makes the vector unsorted for good)
AppendValue(c) ==
  /\ phase \in {0, 1}
  /\ Len(a) < M.maxlen
  /\ a' = Append(a, c)
  /\ phase' = 1
  /\ LET l == LastValue(a)
     IN  IF ~Orderable(c) THEN asc' = FALSE /\ desc' = FALSE
         ELSE IF IsBlank(l) THEN UNCHANGED <<asc, desc>>   \* first value
         ELSE /\ asc' = (asc /\ Leq(l, c))
              /\ desc' = (desc /\ Leq(c, l))
  /\ IF M.srt THEN (IF asc' THEN TRUE ELSE desc')   \* sorted-only modes
     ELSE TRUE                                      \* drop the others
  /\ UNCHANGED mode

TrailBlank ==
  /\ phase \in {1, 2}
  /\ Len(a) < M.maxlen
  /\ Len(a) - Hi(a) < M.maxz
  /\ a' = Append(a, Blank)
  /\ phase' = 2
  /\ UNCHANGED <<mode, asc, desc>>

AppendAny == \E c \in M.pool : AppendValue(c)

Next == LeadBlank \/ AppendAny \/ TrailBlank

Spec == Init /\ [][Next]_vars

--------------------------------------------------------------------------
(* Invariants and laws, all checked by TLC *)

LookSet == {M.look[i] : i \in DOMAIN M.look}

\* MATCH on the machine's vector: sortedness is read from the flags that
\* AppendValue maintains (FlagsRight checks they are the declarative ones)
Flag(t) == IF t = 1 THEN asc ELSE IF t = -1 THEN desc ELSE FALSE
MA(v, t) == MatchRel(v, a, t, Flag(t))

TypeOK ==
  /\ mode \in 1..Len(Modes)
  /\ phase \in 0..2
  /\ Len(a) <= M.maxlen
  /\ \A i \in DOMAIN a : IsBlank(a[i]) \/ a[i] \in M.pool
  /\ asc \in BOOLEAN /\ desc \in BOOLEAN

\* blanks only at the ends
BlanksAtEnds ==
  \A i, j, k \in DOMAIN a :
     (i < j /\ j < k /\ ~IsBlank(a[i]) /\ ~IsBlank(a[k])) => ~IsBlank(a[j])

\* the incrementally maintained flags are the declarative "sorted"
\* (a vector holding text that cannot be ordered counts as unsorted)
FlagsRight ==
  /\ asc  = (Plain(a) /\ SortedDir(a, 1))
  /\ desc = (Plain(a) /\ SortedDir(a, -1))

\* The laws of MATCH on the machine's vector.  Each is stated for one lookup
\* value v and its allowed set(s) R, then quantified over all lookup values.
Special == {{FREE}, {SELF}}

\* the result set is never empty, and holds either one of the special
\* results alone or positions of the vector
WellFormedLaw(R) ==
  /\ R # {}
  /\ \/ R \in {{NA}, {FREE}, {SELF}}
     \/ R \subseteq DOMAIN a

\* type 0: the position found holds v, and nothing before it does
ExactLaw(v, R) ==
  R \notin Special =>
    /\ Cardinality(R) = 1
    /\ \A p \in R :
         IF p = NA THEN \A i \in DOMAIN a : ~Eq0(v, a[i])
         ELSE /\ Eq0(v, a[p])
              /\ Tag(a[p]) = Tag(v)
              /\ \A i \in 1..(p - 1) : ~Eq0(v, a[i])

\* types 1 / -1 on sorted data: every allowed position holds a value of v's
\* type on the right side of v, and no cell of that type lies strictly
\* between it and v; #N/A exactly when no cell of v's type is on that side
ApproxLaw(v, t, R) ==
  LET Side(i) == IF t = 1 THEN Leq(a[i], v) ELSE Leq(v, a[i])
  IN  R \notin Special =>
        IF R = {NA}
        THEN \A i \in DOMAIN a : Tag(a[i]) = Tag(v) => ~Side(i)
        ELSE \A p \in R :
               /\ Tag(a[p]) = Tag(v) /\ Side(p)
               /\ \A i \in DOMAIN a :
                    (Tag(a[i]) = Tag(v) /\ Side(i)) =>
                       IF t = 1 THEN Leq(a[i], a[p]) ELSE Leq(a[p], a[i])

\* if an exact match exists (without wildcards) the approximate types find
\* an equal value too
FindsExactLaw(v, R) ==
  (R \notin Special /\ \E i \in DOMAIN a :
      Tag(a[i]) = Tag(v) /\ SameValue(a[i], v))
  => \A p \in R : p # NA /\ SameValue(a[p], v)

\* the binary search of the implementation style refines the relation
BinarySearchLaw(v, R1) ==
  R1 \notin Special => BinarySearch(v, a) \in R1

\* types 1 and -1 sandwich v: on an ascending vector a (type 1) and on the
\* same cells in descending order (type -1) the two answers hold neighbouring
\* values of v's type with v in between, and both are #N/A only if the
\* vector holds no value of v's type at all
SandwichLaw(v, R1) ==
  LET b == Reverse(a)
      S == MatchRel(v, b, -1, asc)     \* b descends iff a ascends
  IN  /\ (R1 \in Special) = (S \in Special)
      /\ R1 \notin Special =>
           /\ (R1 = {NA} /\ S = {NA}) =>
                 \A i \in DOMAIN a : Tag(a[i]) # Tag(v)
           /\ (R1 # {NA} /\ S # {NA}) =>
                 \A p \in R1 : \A q \in S :
                   /\ Leq(a[p], v) /\ Leq(v, b[q])
                   /\ \A i \in DOMAIN a : Tag(a[i]) = Tag(v) =>
                        (Leq(a[i], a[p]) \/ Leq(b[q], a[i]))

\* the laws one by one (for checking them separately) ...
WellFormed        == \A v \in LookSet : \A t \in {-1, 0, 1} : WellFormedLaw(MA(v, t))
ExactIsFirstEqual == \A v \in LookSet : ExactLaw(v, MA(v, 0))
ApproxIsBest      == \A v \in LookSet : \A t \in {-1, 1} : ApproxLaw(v, t, MA(v, t))
ApproxFindsExact  == \A v \in LookSet : \A t \in {-1, 1} : FindsExactLaw(v, MA(v, t))
BinarySearchOK    == \A v \in LookSet : BinarySearchLaw(v, MA(v, 1))
Sandwich          == \A v \in LookSet : SandwichLaw(v, MA(v, 1))

\* ... and all of them with every allowed set computed once per lookup
\* value (this is what the configurations check: same laws, a third of the
\* evaluations)
MatchLaws ==
  \A v \in LookSet :
    LET Rm == MA(v, -1)
        R0 == MA(v, 0)
        R1 == MA(v, 1)
    IN  /\ WellFormedLaw(Rm) /\ WellFormedLaw(R0) /\ WellFormedLaw(R1)
        /\ ExactLaw(v, R0)
        /\ ApproxLaw(v, -1, Rm) /\ ApproxLaw(v, 1, R1)
        /\ FindsExactLaw(v, Rm) /\ FindsExactLaw(v, R1)
        /\ BinarySearchLaw(v, R1)
        /\ SandwichLaw(v, R1)

\* how the allowed sets grow when one cell is appended (the inductive
\* reading of the linear scan).  Stated on the vector and the vector it was
\* appended to -- its prefix -- so that it is a state invariant; a sorted
\* vector has a sorted prefix, hence the prefix shares the flag.
AppendLaw ==
  Len(a) > 0 =>
    LET n    == Len(a)
        c    == a[n]
        prev == SubSeq(a, 1, n - 1)
    IN  \A v \in LookSet :
          LET R0  == MatchRel(v, prev, 0, FALSE)    R0n == MA(v, 0)
              R1  == MatchRel(v, prev, 1, asc)      R1n == MA(v, 1)
          IN  /\ (R0 \notin Special /\ R0n \notin Special) =>
                   R0n = IF R0 # {NA} THEN R0
                         ELSE IF Eq0(v, c) THEN {n} ELSE {NA}
              /\ (R1 \notin Special /\ R1n \notin Special) =>
                   R1n = IF Tag(c) = Tag(v) /\ Leq(c, v)
                         THEN IF R1 # {NA} /\ \A p \in R1 : SameValue(a[p], c)
                              THEN R1 \cup {n} ELSE {n}
                         ELSE R1

\* tables: VLOOKUP on a table is HLOOKUP on its transpose; LOOKUP's array
\* form is the approximate V/HLOOKUP into the last column/row; V/HLOOKUP and
\* LOOKUP answer with the cell INDEX returns at a position MATCH allows;
\* INDEX outside the table is an error
Widths == IF M.w = 0 THEN {} ELSE {M.w}

TableLaws ==
  \A w \in Widths : Len(a) > 0 =>
    LET T  == TableOf(a, w)
        TT == Transpose(T)
    IN  /\ Transpose(TT) = T
        \* a table of one cell is its own transpose: there VLOOKUP, HLOOKUP
        \* and both forms of LOOKUP are one and the same function of (v, cell)
        /\ (Len(a) = 1 /\ w = 1) =>
             /\ TT = T
             /\ \A v \in LookSet :
                  /\ \A approx \in BOOLEAN : \A c \in (-1)..2 :
                       VLookup(v, T, c, approx) = HLookup(v, T, c, approx)
                  /\ LookupArr(v, T) = LookupVec(v, a, a)
                  /\ LookupArr(v, T) = VLookup(v, T, 1, TRUE)
        /\ \A v \in LookSet : \A approx \in BOOLEAN :
             /\ \A c \in (-1)..(w + 1) :
                  VLookup(v, T, c, approx) = HLookup(v, TT, c, approx)
             /\ \A c \in 1..w :
                  LET P == MA(v, TypeOf(approx))
                  IN  (~IsErr(v) /\ FREE \notin P) =>
                        VLookup(v, T, c, approx) =
                          UNION { IF p = NA THEN {Err("#N/A")}
                                  ELSE Index(T, p, c) : p \in P }
        /\ \A v \in LookSet :
             /\ Len(a) >= w => LookupArr(v, T) = VLookup(v, T, w, TRUE)
             /\ Len(a) > w  => LookupArr(v, TT) = HLookup(v, TT, w, TRUE)
             /\ LookupVec(v, a, Col(T, w)) = VLookup(v, T, w, TRUE)
        /\ \A r \in (-1)..(Len(a) + 1) : \A c \in (-1)..(w + 1) :
             /\ Index(T, r, c) = Index(TT, c, r)
             /\ (r \in 1..Len(a) /\ c \in 1..w) => T[r][c] \in Index(T, r, c)
             /\ ~(r \in 1..Len(a) /\ c \in 1..w) => Index(T, r, c) = RangeErr

--------------------------------------------------------------------------
(* Test-vector export (an "invariant" that is always TRUE and prints) *)

\* allowed results of MATCH(v, a, t) for t = -1, 0, 1
MatchRow(v) == <<MA(v, -1), MA(v, 0), MA(v, 1)>>

ExportVector ==
  PrintT(ToJson([kind |-> "vec", mode |-> mode, a |-> a,
                 asc |-> asc, desc |-> desc,
                 look |-> IF a = <<>> THEN M.look ELSE <<>>,
                 m |-> [i \in DOMAIN M.look |-> MatchRow(M.look[i])],
                 ix |-> [i \in 1..(Len(a) + 2) |->
                           Index1(a, IF i = Len(a) + 2 THEN -1 ELSE i)]]))

ExportTable ==
  LET w == M.w
      T == TableOf(a, w)
      n == Len(a)
      \* result indices 1..w, then w+1, 0 and -1
      RI(k) == IF k <= w + 1 THEN k ELSE IF k = w + 2 THEN 0 ELSE -1
  IN PrintT(ToJson(
       [kind |-> "tbl", mode |-> mode, a |-> a, w |-> w, t |-> T,
        asc |-> asc,
        look |-> IF n = 1 THEN M.look ELSE <<>>,
        ri |-> [k \in 1..(w + 3) |-> RI(k)],
        \* vl[i][k][1|2]: VLOOKUP(look[i], T, ri[k], FALSE|TRUE)
        \*              = HLOOKUP(.., Transpose(T), ..) by TableLaws
        vl |-> [i \in DOMAIN M.look |-> [k \in 1..(w + 3) |->
                  <<VLookup(M.look[i], T, RI(k), FALSE),
                    VLookup(M.look[i], T, RI(k), TRUE)>>]],
        \* LOOKUP: vector form into column w, array form on T and on its
        \* transpose where the search runs along the keys
        lv |-> [i \in DOMAIN M.look |-> LookupVec(M.look[i], a, Col(T, w))],
        la |-> [i \in DOMAIN M.look |->
                  IF n >= w THEN LookupArr(M.look[i], T) ELSE {}],
        lt |-> [i \in DOMAIN M.look |->
                  IF n > w THEN LookupArr(M.look[i], Transpose(T)) ELSE {}],
        \* INDEX(T, r, c) for r in 1..n+1 and -1, c in 1..w+1 and -1
        ix |-> [r \in 1..(n + 2) |-> [c \in 1..(w + 2) |->
                  Index(T, IF r = n + 2 THEN -1 ELSE r,
                           IF c = w + 2 THEN -1 ELSE c)]]]))

Export == IF M.w = 0 THEN ExportVector
          ELSE IF Len(a) = 0 THEN TRUE ELSE ExportTable
=============================================================================
