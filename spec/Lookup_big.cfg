CONSTANTS
  Modes <- BigModes
SPECIFICATION Spec
INVARIANT TypeOK
INVARIANT BlanksAtEnds
INVARIANT FlagsRight
INVARIANT MatchLaws
INVARIANT TableLaws
INVARIANT AppendLaw
INVARIANT Export
