CONSTANTS
  Modes <- BigModes
SPECIFICATION Spec
INVARIANT TypeOK
INVARIANT BlanksAtEnds
INVARIANT FlagsRight
INVARIANT WellFormed
INVARIANT ExactIsFirstEqual
INVARIANT ApproxIsBest
INVARIANT ApproxFindsExact
INVARIANT BinarySearchOK
INVARIANT Sandwich
INVARIANT TableLaws
INVARIANT Export
PROPERTY AppendLaw
