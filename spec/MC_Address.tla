---------------------------- MODULE MC_Address ----------------------------
(* Constants of the exhaustive (quick) configuration of Address.tla.       *)
EXTENDS Address

MCModes == {"col", "coord", "sheet", "pair", "big", "triple"}

\* the column walk starts at 1, 65, 129, ...: every column is reached and
\* every step n -> n+1 is taken, in 64 levels instead of 16384
MCColStarts == { 1 + 64 * k : k \in 0..255 }

\* coordinate machine: seeds sit just before every boundary (Z|AA = 26|27,
\* AZ|BA = 52|53, ZZ|AAA = 702|703, XFC|XFD|wrap = 16383|16384|1; rows
\* 1|2, 9|10, 1048575|1048576|wrap); Steps moves of +1 column / +1 row
MCColSeeds == {1, 25, 51, 701, 16383}
MCRowSeeds == {1, 8, 1048575}
MCSteps == 3
MCAnchors == { <<1, 1>>, <<3, 5>>, <<MaxCol, MaxRow>> }
MCOffCols == {0, 1, -1, 3, MaxCol - 1, 1 - MaxCol, MaxCol, 0 - MaxCol, 40000, -40000}
MCOffRows == {0, 1, -1, 4, MaxRow - 1, 1 - MaxRow, MaxRow, 0 - MaxRow, 2000000, -2000000}
MCSpans == { <<0, 0>>, <<1, 0>>, <<0, 2>>, <<2, 1>> }
\* corner offsets of a relative range anchored at the walking cell: next to a
\* sheet edge one corner wraps and the other does not
MCRelOffs == {-2, 0, 3}

\* sheet names: all words of at most 3 characters over
\*   A  1  space  apostrophe  !  -
\* (openers: every legal one is a sheet; ! and - need the quotes in a
\* formula), and names that look like references, numbers or both
MCAlphabet == {65, 49, 32, 39, 33, 45}
MCMaxName == 3
MCSpecialNames ==
  { <<65, 49>>,                                      \* A1
    <<82, 49, 67, 49>>,                              \* R1C1
    <<82, 67>>,                                      \* RC
    <<88, 70, 68, 49, 48, 52, 56, 53, 55, 54>>,      \* XFD1048576
    <<50, 48, 49, 57>>,                              \* 2019
    <<66, 111, 98, 39, 115>>,                        \* Bob's
    <<66, 111, 98, 39, 115, 32, 83>>,                \* Bob's S
    <<77, 121, 32, 83, 104, 101, 101, 116>>,         \* My Sheet
    <<73, 116, 39, 39, 115>>,                        \* It''s
    <<83, 104, 101, 101, 116, 49>>,                  \* Sheet1
    <<97, 46, 98, 95, 99>>,                          \* a.b_c
    <<84, 82, 85, 69>>,                              \* TRUE
    <<82, 49>>, <<67, 50>>,                          \* R1  C2
    <<83, 45, 49>>,                                  \* S-1
    <<83, 40, 49, 41>>,                              \* S(1)
    <<97, 44, 98>>, <<97, 43, 98>>, <<97, 38, 98>> } \* a,b a+b a&b

MCSmallCols == 1..3
MCSmallRows == 1..3
MCBigCols == {1, 26, 27, 16384}
MCBigRows == {1, 2, 1048576}
MCExportTriples == TRUE

\* thorough tier, Address_big.cfg: the 4x4 grid -- 100 rectangles, 10^4 pairs
\* (exported), 10^6 triples (laws checked by TLC, not printed; the harness
\* composes the expected value of a triple from the exported pairs)
BGModes == {"pair", "triple"}
BGCols == 1..4
BGExportTriples == FALSE
===========================================================================
