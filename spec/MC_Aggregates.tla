---- MODULE MC_Aggregates ----
EXTENDS Aggregates
\* Exhaustive pool (10 values): numbers incl. negative and fractional
\* (k counts halves: -3 = -1.5, 1 = 0.5, 4 = 2), numeric text, other text,
\* a logical, a blank, two different error values.
MCPool == { Num(-3), Num(0), Num(1), Num(4),
            Txt("3"), Txt("abc"), Bool(1), Blank,
            Err("#N/A"), Err("#DIV/0!") }
MCMaxLen == 4
MCPartMax == 4
\* thorough tier, exhaustive to length 5
MCMaxLen5 == 5
\* simulation pool (thorough tier): more of everything, up to 5 x 5 cells
BigPool == MCPool \cup { Num(7), Num(-8), Num(5), Num(2), Bool(0), Txt(""),
                         Txt("-1.5"), Err("#VALUE!") }
BigMaxLen == 25
BigPartMax == 6
====
