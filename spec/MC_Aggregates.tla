---- MODULE MC_Aggregates ----
EXTENDS Aggregates
\* Exhaustive pool (10 values): numbers incl. negative and fractional
\* (k counts halves: -3 = -1.5, 1 = 0.5, 4 = 2), numeric text, other text,
\* a logical, a blank, two different error values.
MCPool == { Num(-3), Num(0), Num(1), Num(4),
            Txt("3"), Txt("abc"), Bool(1), Blank,
            Err("#N/A"), Err("#DIV/0!") }
MCMaxLen == 4
MCPartMax == 4
\* simulation pools: long ranges (up to 5 x 5 cells).  A random 25-cell range
\* over a pool with errors nearly always holds one, so most traces use the
\* error-free pool and the rest the pool with three different error values.
BigPool == { Num(-3), Num(0), Num(1), Num(4), Num(7), Num(-8), Num(5), Num(2),
             Num(11), Num(-1),
             Txt("3"), Txt("abc"), Txt(""), Txt("-1.5"), Bool(1), Bool(0), Blank }
BigPoolE == BigPool \cup { Err("#N/A"), Err("#DIV/0!"), Err("#VALUE!") }
BigMaxLen == 25
BigPartMax == 6
====
