---- MODULE MC_Arrays ----
EXTENDS Arrays
\* first configuration: every element is its symbolic number
MCNone(k, i, j) == None

\* second configuration: errors and text at fixed positions, chosen so that
\* an error meets a number, a text, and another error (the left one wins),
\* in corner, edge and interior positions, and so that the second and the
\* third operand are errors when they are scalars (position (1, 1))
In(i, j, S) == <<i, j>> \in S
MCSpecial(k, i, j) ==
  CASE k = 1 /\ In(i, j, {<<1,2>>, <<2,2>>, <<3,3>>}) -> <<"E", "#DIV/0!">>
    [] k = 1 /\ In(i, j, {<<2,1>>, <<4,4>>, <<1,3>>}) -> <<"S", "x">>
    [] k = 2 /\ In(i, j, {<<1,1>>, <<2,2>>, <<1,3>>, <<4,1>>}) -> <<"E", "#NUM!">>
    [] k = 2 /\ In(i, j, {<<3,1>>, <<2,4>>, <<1,2>>}) -> <<"S", "y">>
    [] k = 3 /\ In(i, j, {<<1,1>>, <<3,2>>})          -> <<"E", "#NAME?">>
    [] k = 3 /\ In(i, j, {<<2,3>>})                   -> <<"S", "z">>
    [] OTHER -> None
====
