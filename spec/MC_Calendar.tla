---------------------------- MODULE MC_Calendar ----------------------------
(* Constants for the quick tier (Calendar_mc.cfg) and the thorough tier     *)
(* (Calendar_big.cfg).  cfg files cannot hold negative numbers or sets of   *)
(* them, so every constant is defined here and bound with  Const <- Def.    *)
EXTENDS Calendar

AllModes == {"cal", "date", "shift", "time", "yf", "frac", "far"}

\* the calendar machine always runs to Excel's last day
MCLastSerial == 2958465
\* quick: single days through 1901-12-31 (serial 731), whole months after
MCDayStepsUntil == 731
\* thorough: every one of the 2 958 466 days is a state
BigDayStepsUntil == 2958466

\* quick: start the calendar machine in every century as well (the runs merge)
MCCalSeeds == {0} \cup {DateSerial(1900 + 100 * c, 1, 1) : c \in 1..80}
BigCalSeeds == {0}
MCSplitChains == TRUE

\* DATE: month and day arguments -40..60 as the property quantifies
MCArgLo == -40
MCArgHi == 60
\* quick: the year of the 1900 quirk, an ordinary year, the last year, a
\* two-digit year (4 = 1904, a leap year), and the two illegal years
MCDateYears  == {-1, 4, 1900, 2009, 9999, 10000}
BigDateYears == MCDateYears \cup
  {0, 1, 100, 1901, 1899, 1903, 1904, 1999, 2000, 2001, 2023, 2024, 2100, 2400,
   4000, 9998}

\* EOMONTH / EDATE: month shifts -1200..1200 from these start days
MCShiftLo == -1200
MCShiftHi == 1200
MCShiftStarts == {-1, 0, 1, 59, 60, 61, 39844, 43890, 73050, 2958465, 2958466}
BigShiftStarts == MCShiftStarts \cup
  {28, 29, 30, 31, 32, 58, 62, 90, 91, 121, 365, 366, 367, 425, 1461, 1520,
   1521, 39872, 2958101,
   36525, 36584, 36585, 36950, 39507, 39813, 39814, 39903, 40000, 43861,
   43889, 43891, 43921, 44255, 45000, 45291, 45351, 45352, 73049, 73108,
   73109, 73110, 109574, 109633, 182623, 182683, 1000000, 2000000,
   2958100, 2958130, 2958159, 2958435, 2958464}

\* sub-second perturbations (ms): nearest second is unambiguous
MCTimeDeltas == {-400, 0, 400}
BigTimeDeltas == {-499, -400, -250, -1, 0, 1, 250, 400, 499}

\* YEARFRAC: pairs over month ends, leap days, the fictitious days, extremes
MCYfDays == {0, 1, 59, 60, 61, 366, 39507, 39844, 39872, 39903, 40000,
             43890, 43891, 45351, 73050, 73109, 2958101, 2958465}
BigYfDays == MCYfDays \cup
  {30, 31, 32, 58, 365, 367, 425, 1461, 1520, 36525, 36585, 39813, 39814,
   40237, 40543, 43861, 43889, 43921, 44255, 45000, 45291, 45352, 45657,
   73049, 73110, 109574, 182683, 1000000, 2958100, 2958435}

\* arguments with a fraction: quarters.  Years 1900, 2009.5, 4.25 (= 1904);
\* pinned months / days -1.5, -0.25, 0.5, 1.5, 12.25, 12.75, 13.25 / -1.5,
\* -0.25, 0.5, 1.5, 28.75, 31.5, 32.25 while the other argument walks -40..60
MCFracDen == 4
MCFracYears  == {7600, 8038, 17}
BigFracYears == MCFracYears \cup {7601, 7603, 7618, 8098, 39998}
MCFracMonthPins == {-6, -1, 2, 6, 49, 51, 53}
MCFracDayPins   == {-6, -1, 2, 6, 115, 126, 129}
\* EOMONTH / EDATE from every quarter of these days, months -30..30 by quarters
\* (day 0: a time of the day without a date is a moment of 1900-01-00)
MCFracStarts  == {0, 1, 59, 60, 61, 39844, 43890, 2958465}
BigFracStarts == MCFracStarts \cup {31, 366, 425, 36585, 39872, 40000, 45351, 73050, 2958101}
MCFracShiftLo == -30
MCFracShiftHi == 30

\* far arguments: +-{1, 2, 3, 5, 7} * 10^(0..20) -- 1 .. 20 000 days still carry
\* into the calendar from a pinned month, 30 000 and more days leave it from
\* some pins and not from others, 10^7 and more always; the last year, the
\* last month pin (60: four years beyond 9999) and far negative days meet
MCFarMants == {1, 2, 3, 5, 7}
MCFarMaxExp == 20
MCFarYears == {0, 1900, 2000, 9999}
BigFarYears == MCFarYears \cup {4, 1899, 1904, 2024, 5000, 9998}
MCFarPins == {-40, 0, 1, 12, 60}
BigFarPins == MCFarPins \cup {-1, 2, 13, 31}
MCFarStarts == {0, 1, 60, 40000, 2958465}
BigFarStarts == MCFarStarts \cup {59, 61, 36585, 1000000, 2958101}
=============================================================================
