---------------------------- MODULE MC_CondFormat ----------------------------
(* Constants for the runs of CondFormat (X03): the grid, the scenarios      *)
(* (rule sets of the sheets S and T), the queries.                          *)
EXTENDS CondFormat

\* ---- what the file holds on S!A1:D4 (row by row) --------------------------
\*        A      B      C      D
\*   1    1      2      0      blank
\*   2    2      1      "x"    0
\*   3    0      2      1      TRUE
\*   4    blank  0      2      1
MCRows == << << N(1), N(2), N(0),     Z     >>,
             << N(2), N(1), Txt("x"), N(0)  >>,
             << N(0), N(2), N(1),     TRUEV >>,
             << Z,    N(0), N(2),     N(1)  >> >>
MCInitGrid == [p \in (1..4) \X (1..4) |-> MCRows[p[2]][p[1]]]

MCSetPool    == {Z, N(0), N(2), DIV0}
MCSetPoolBig == {Z, N(0), N(1), N(2), DIV0, Txt("X"), TRUEV}
MCSetPoolTwo == {Z, N(2), DIV0}              \* with two cells changed at once

\* ---- references ------------------------------------------------------------
Rel(c, r)    == Ref("", c, r, FALSE, FALSE)      \*  A1
Abs(c, r)    == Ref("", c, r, TRUE, TRUE)        \*  $A$1
ColAbs(c, r) == Ref("", c, r, TRUE, FALSE)       \*  $A1
RowAbs(c, r) == Ref("", c, r, FALSE, TRUE)       \*  A$1
On(sh, x)    == [x EXCEPT !.sh = sh]             \*  T!A1

\* ---- formulas ---------------------------------------------------------------
Gt(a, m)        == [k |-> "gt", a |-> a, b |-> a, m |-> m, n |-> 0]        \* a>m
Eq(a, b)        == [k |-> "eq", a |-> a, b |-> b, m |-> 0, n |-> 0]        \* a=b
And(a, m, b, n) == [k |-> "and", a |-> a, b |-> b, m |-> m, n |-> n]       \* AND(a>m,b<n)
Blank(a)        == [k |-> "blank", a |-> a, b |-> a, m |-> 0, n |-> 0]     \* ISBLANK(a)
ValF(a)         == [k |-> "val", a |-> a, b |-> a, m |-> 0, n |-> 0]       \* a

\* ---- rules ------------------------------------------------------------------
Expr(rng, f, prio, stop, fmt) ==
  [ty |-> "expression", rng |-> rng, f |-> f, prio |-> prio, stop |-> stop, fmt |-> fmt]
CellIs(rng, m, prio, stop, fmt) ==                      \* "cell value greater than m"
  [ty |-> "cellIs", rng |-> rng, f |-> Gt(Rel(1, 1), m), prio |-> prio, stop |-> stop, fmt |-> fmt]
Scale(rng, prio) ==                                     \* colour scale: no formula
  [ty |-> "scale", rng |-> rng, f |-> Gt(Rel(1, 1), 0), prio |-> prio, stop |-> FALSE, fmt |-> 99]
Sc(name, rules, trules) == [name |-> name, rules |-> rules, trules |-> trules]

A1B2 == << <<1, 1, 2, 2>> >>
B2C3 == << <<2, 2, 3, 3>> >>
A1D4 == << <<1, 1, 4, 4>> >>
TOnly == << Expr(A1B2, Gt(Rel(1, 1), 1), 1, FALSE, 9) >>      \* T!A1:B2  =A1>1

\* ---- the systematic family: one rule on B2:C3, every formula kind, every
\* combination of $ on the first reference (A1, up-left of the origin); the
\* second reference (C2) has them the other way round
SysKinds == <<"gt", "eq", "and", "blank", "val">>
SysF(k, a, b) == CASE k = "gt" -> Gt(a, 0) [] k = "eq" -> Eq(a, b) [] k = "and" -> And(a, 0, b, 2)
                   [] k = "blank" -> Blank(a) [] k = "val" -> ValF(a)
SysScenario(i) ==
  LET k  == SysKinds[((i - 1) \div 4) + 1]
      ca == ((i - 1) % 4) \div 2 = 1
      ra == (i - 1) % 2 = 1
  IN Sc("sys", << Expr(B2C3, SysF(k, Ref("", 1, 1, ca, ra), Ref("", 3, 2, ~ca, ~ra)), 1, FALSE, 1) >>,
        << >>)
Systematic == [i \in 1..20 |-> SysScenario(i)]

\* ---- hand-written rule sets -------------------------------------------------
HandWritten == <<
  \* the shape of the library's own test workbook: four rules on one column,
  \* priorities not in file order, one stop, a colour scale in between
  Sc("fixture",
     << Expr(<< <<2, 2, 2, 4>> >>, Blank(Rel(2, 2)), 5, FALSE, 1),
        Expr(<< <<2, 2, 2, 4>> >>, Eq(Rel(2, 2), Abs(1, 2)), 1, FALSE, 2),
        Expr(<< <<2, 2, 2, 4>> >>, Gt(Rel(2, 2), 1), 2, FALSE, 3),
        Expr(<< <<2, 2, 2, 4>> >>, Gt(Rel(2, 2), 0), 4, TRUE, 4),
        Scale(<< <<2, 3, 2, 4>> >>, 3) >>, TOnly),
  \* file order 3, 1, 2; stop on the middle priority; mixed references
  Sc("order",
     << Expr(A1B2, Gt(Rel(1, 1), 0), 3, FALSE, 1),
        Expr(A1B2, Eq(ColAbs(1, 1), RowAbs(1, 1)), 1, FALSE, 2),
        Expr(A1B2, Gt(Rel(1, 1), 1), 2, TRUE, 3) >>, << >>),
  \* overlapping ranges of different rules; a reference right of the cell
  \* (reaches the derived column E)
  Sc("overlap",
     << Expr(A1B2, Gt(Rel(1, 1), 0), 1, FALSE, 1),
        Expr(B2C3, Gt(Rel(1, 1), 1), 2, TRUE, 2),
        Expr(A1D4, Blank(Rel(2, 1)), 3, FALSE, 3) >>, << >>),
  \* two rectangles, the first is the top-left one
  Sc("multi",
     << Expr(<< <<1, 1, 1, 2>>, <<3, 3, 3, 4>> >>, Gt(Rel(1, 1), 0), 1, FALSE, 1),
        Expr(<< <<1, 1, 1, 2>>, <<3, 3, 3, 4>> >>, Eq(ColAbs(1, 1), RowAbs(2, 1)), 2, FALSE, 2),
        Expr(<< <<2, 1, 3, 1>>, <<2, 3, 2, 4>>, <<4, 2, 4, 2>> >>, Gt(Rel(1, 1), 1), 3, FALSE, 3) >>,
     << >>),
  \* two rectangles, the first of the file is NOT the top-left one: both
  \* origins are allowed; with the first as origin A1 reads off the sheet
  Sc("multi2",
     << Expr(<< <<3, 3, 3, 4>>, <<1, 1, 1, 2>> >>, Gt(Rel(2, 2), 1), 1, FALSE, 1),
        Expr(<< <<2, 3, 3, 3>>, <<2, 1, 3, 1>> >>, Blank(Rel(2, 4)), 2, FALSE, 2) >>, << >>),
  \* references that leave the sheet at its far ends
  Sc("leave",
     << Expr(<< <<1, 1, 1, 2>> >>, Gt(Rel(1, MaxRow), 0), 1, FALSE, 1),
        Expr(<< <<1, 1, 2, 1>> >>, Blank(Rel(MaxCol, 1)), 2, FALSE, 2),
        Expr(<< <<2, 1, 2, 2>> >>, And(Rel(2, MaxRow), 0, Rel(1, 1), 2), 3, TRUE, 3),
        Expr(<< <<1, 2, 2, 2>> >>, Eq(Rel(MaxCol, MaxRow), ColAbs(1, 2)), 4, FALSE, 4) >>, << >>),
  \* references that name a sheet, rules on both sheets
  Sc("sheets",
     << Expr(A1B2, Gt(On("T", Rel(1, 1)), 1), 1, FALSE, 1),
        Expr(A1B2, Eq(Rel(1, 1), On("T", Rel(2, 2))), 2, FALSE, 2),
        Expr(<< <<3, 1, 3, 2>> >>, Gt(On("S", Rel(1, 1)), 1), 3, FALSE, 3) >>,
     << Expr(A1B2, Gt(Rel(1, 1), 1), 1, FALSE, 4),
        Expr(<< <<2, 1, 3, 2>> >>, Eq(On("S", Rel(2, 1)), Rel(2, 1)), 2, TRUE, 5) >>),
  \* rules on and about the derived (formula) column
  Sc("derived",
     << Expr(<< <<5, 1, 5, 4>> >>, Gt(Rel(5, 1), 0), 1, FALSE, 1),
        Expr(<< <<1, 1, 1, 4>> >>, Eq(ColAbs(5, 1), Rel(1, 1)), 2, FALSE, 2),
        Expr(<< <<4, 1, 5, 2>> >>, Blank(Rel(4, 1)), 3, TRUE, 3) >>, TOnly),
  \* the three rule types on one range
  Sc("types",
     << CellIs(<< <<4, 1, 4, 4>> >>, 0, 1, TRUE, 1),
        Scale(<< <<4, 1, 4, 4>> >>, 2),
        Expr(<< <<3, 1, 4, 4>> >>, Gt(Rel(3, 1), 0), 3, FALSE, 2),
        CellIs(<< <<1, 1, 2, 2>>, <<5, 3, 5, 4>> >>, 1, 4, FALSE, 3) >>,
     << CellIs(A1B2, 1, 1, FALSE, 4) >>),
  \* two rules give the same format
  Sc("samefmt",
     << Expr(A1B2, Gt(Rel(1, 1), 0), 1, FALSE, 1),
        Expr(A1B2, Gt(Rel(1, 1), 1), 2, FALSE, 1) >>, << >>),
  \* the value of a cell as the condition: numbers, logicals, blank, text
  Sc("bare",
     << Expr(A1D4, ValF(Rel(1, 1)), 2, FALSE, 1),
        Expr(B2C3, ValF(Abs(1, 3)), 1, TRUE, 2) >>, << >>),
  \* AND with mixed references, stop on the first
  Sc("and",
     << Expr(<< <<2, 1, 3, 2>> >>, And(Rel(1, 1), 0, Abs(3, 3), 2), 1, TRUE, 1),
        Expr(<< <<2, 1, 3, 2>> >>, And(ColAbs(1, 1), 0, RowAbs(2, 4), 3), 2, FALSE, 2) >>, << >>),
  \* a one-cell range, a range over everything
  Sc("single",
     << Expr(<< <<3, 3, 3, 3>> >>, Gt(Rel(3, 3), 0), 1, FALSE, 1),
        Expr(<< <<1, 1, 5, 4>> >>, Eq(Rel(1, 1), Abs(2, 2)), 2, FALSE, 2) >>, << >>),
  \* every rule stops
  Sc("stops",
     << Expr(<< <<1, 1, 4, 1>> >>, Gt(Rel(1, 1), 1), 1, TRUE, 1),
        Expr(<< <<1, 1, 4, 1>> >>, Gt(Rel(1, 1), 0), 2, TRUE, 2),
        Expr(<< <<1, 1, 4, 1>> >>, Blank(Rel(1, 1)), 3, TRUE, 3),
        Expr(<< <<1, 1, 4, 1>> >>, Eq(Rel(1, 1), Rel(1, 2)), 4, TRUE, 4) >>, << >>),
  \* no rules at all
  Sc("none", << >>, << >>)
>>

MCScenarios    == Systematic \o HandWritten
\* the rule sets walked with two cells changed at once (the interplay of two
\* conditions: stop-if-true, AND, both sides of a comparison)
MCScenariosTwo == SelectSeq(HandWritten, LAMBDA s : s.name \in
   {"fixture", "order", "multi2", "leave", "sheets", "derived", "samefmt", "and", "stops"})

\* ---- queries ------------------------------------------------------------------
Q(k, sh, rect, items) == [k |-> k, sh |-> sh, rect |-> rect, items |-> items]
MCQueries == <<
  Q("rect", "S", <<1, 1, 5, 4>>, << >>),      \*  1  S!A1:E4   everything
  Q("cell", "",  <<2, 2, 2, 2>>, << >>),      \*  2  B2        no sheet: the active one
  Q("cell", "S", <<1, 1, 1, 1>>, << >>),      \*  3  S!A1
  Q("rect", "",  <<1, 1, 2, 2>>, << >>),      \*  4  A1:B2
  Q("rect", "T", <<1, 1, 4, 4>>, << >>),      \*  5  T!A1:D4
  Q("list", "",  <<1, 1, 1, 1>>, <<3, 2, 8>>),\*  6  [S!A1, B2, S!B1:C1]
  Q("cell", "T", <<2, 1, 2, 1>>, << >>),      \*  7  T!B1
  Q("rect", "S", <<2, 1, 3, 1>>, << >>),      \*  8  S!B1:C1   one row
  Q("rect", "",  <<3, 2, 3, 4>>, << >>),      \*  9  C2:C4     one column
  Q("cell", "S", <<5, 2, 5, 2>>, << >>),      \* 10  S!E2      a derived cell
  Q("cell", "",  <<4, 4, 4, 4>>, << >>),      \* 11  D4
  Q("list", "",  <<1, 1, 1, 1>>, <<7, 10, 4, 11>>)  \* 12 [T!B1, S!E2, A1:B2, D4]
>>
=============================================================================
