---- MODULE MC_Criteria ----
EXTENDS Criteria
\* Cell pool (22 values).  Numbers count halves (2 = 1.0, 4 = 2.0, 5 = 2.5,
\* -3 = -1.5); texts are character sequences: abc ABC Abd b a.c a?c a*c xbz,
\* the empty text, the numeric-looking text "2", ac, a text of two lines
\* (a, line break, c); both logicals; a blank; two error values.
MCCells == {
    Blank, Num(0), Num(2), Num(4), Num(5), Num(-3), Bool(1), Bool(0),
    Txt(<<"a","b","c">>), Txt(<<"A","B","C">>), Txt(<<"A","b","d">>),
    Txt(<<"b">>), Txt(<<"a",".","c">>), Txt(<<"a","?","c">>),
    Txt(<<"a","*","c">>), Txt(<<"x","b","z">>), Txt(<<>>), Txt(<<"2">>),
    Txt(<<"a","c">>), Txt(<<"a",LineBreak,"c">>), Err("#N/A"), Err("#DIV/0!") }

\* Criteria pool (63): numbers with every operator, texts with every
\* operator (ordering only against purely alphabetic operands), a text holding
\* a regular-expression metacharacter, wildcard patterns with and without
\* "<>", the ~ escapes, the three empty criteria "", "=", "<>", a text of two
\* lines with "", "<>" and between wildcards, and the criterion read from a
\* blank cell.
MCCrits == {
    <<"", Num(4)>>, <<"=", Num(4)>>, <<"<>", Num(4)>>, <<"<", Num(4)>>,
    <<"<=", Num(4)>>, <<">", Num(4)>>, <<">=", Num(4)>>, <<"", Num(0)>>,
    <<"<>", Num(0)>>, <<">", Num(0)>>, <<"<=", Num(0)>>, <<"", Num(-3)>>,
    <<">=", Num(-3)>>, <<"<", Num(-3)>>, <<"<>", Num(5)>>, <<"=", Num(5)>>,
    <<">", Num(2)>>, <<"", Txt(<<"a","b","c">>)>>,
    <<"=", Txt(<<"a","b","c">>)>>, <<"<>", Txt(<<"a","b","c">>)>>,
    <<"<", Txt(<<"a","b","c">>)>>, <<"<=", Txt(<<"a","b","c">>)>>,
    <<">", Txt(<<"a","b","c">>)>>, <<">=", Txt(<<"a","b","c">>)>>,
    <<"", Txt(<<"A","B","D">>)>>, <<"<>", Txt(<<"b">>)>>,
    <<">", Txt(<<"b">>)>>, <<"<=", Txt(<<"A","C">>)>>,
    <<"", Txt(<<"a",".","c">>)>>, <<"<>", Txt(<<"a",".","c">>)>>,
    <<"", Txt(<<"a","*">>)>>, <<"<>", Txt(<<"a","*">>)>>,
    <<"", Txt(<<"?","b","?">>)>>, <<"<>", Txt(<<"?","b","?">>)>>,
    <<"", Txt(<<"*","c">>)>>, <<"<>", Txt(<<"*","c">>)>>,
    <<"", Txt(<<"a","?","c">>)>>, <<"<>", Txt(<<"a","?","c">>)>>,
    <<"", Txt(<<"*">>)>>, <<"<>", Txt(<<"*">>)>>, <<"", Txt(<<"?">>)>>,
    <<"<>", Txt(<<"?">>)>>, <<"", Txt(<<"?","*">>)>>,
    <<"<>", Txt(<<"?","*">>)>>, <<"", Txt(<<"*",".","c">>)>>,
    <<"<>", Txt(<<"*",".","c">>)>>, <<"", Txt(<<"A","*","C">>)>>,
    <<"<>", Txt(<<"A","*","C">>)>>, <<"", Txt(<<"a","~","?","c">>)>>,
    <<"<>", Txt(<<"a","~","?","c">>)>>, <<"", Txt(<<"a","~","*","c">>)>>,
    <<"<>", Txt(<<"a","~","*","c">>)>>, <<"", Txt(<<"*","~","?","*">>)>>,
    <<"<>", Txt(<<"*","~","?","*">>)>>, <<"=", Txt(<<"a","*">>)>>,
    <<"=", Txt(<<"?">>)>>, <<"", Txt(<<>>)>>, <<"=", Txt(<<>>)>>,
    <<"<>", Txt(<<>>)>>, <<"", Txt(<<"a",LineBreak,"c">>)>>,
    <<"<>", Txt(<<"a",LineBreak,"c">>)>>, <<"", Txt(<<"*",LineBreak,"*">>)>>,
    <<"", Blank>> }

\* second / third criterion (12)
MCCrits2 == {
    <<"<>", Num(4)>>, <<">", Num(0)>>, <<"<=", Num(4)>>,
    <<"", Txt(<<"a","*">>)>>, <<"<>", Txt(<<"a","b","c">>)>>,
    <<"<>", Txt(<<"*","c">>)>>, <<"<>", Txt(<<>>)>>, <<"", Txt(<<>>)>>,
    <<">=", Txt(<<"a","b","c">>)>>, <<"", Txt(<<"?","*">>)>>, <<"", Num(4)>>,
    <<"<>", Txt(<<"a",".","c">>)>> }

\* quick tier: a smaller set of second criteria
MCCrits2Q == { <<"<>", Num(4)>>, <<">", Num(0)>>, <<"", Txt(<<"a","*">>)>>,
               <<"<>", Txt(<<"*","c">>)>>, <<"<>", Txt(<<>>)>>,
               <<">=", Txt(<<"a","b","c">>)>> }

\* quick, exhaustive: every (cell, criterion) pair, every (cell, criterion,
\* second criterion) triple
MCMaxCells == 1
MCMaxCritsFor == [n \in 1..1 |-> 2]
\* thorough, exhaustive: also every two-cell range with one criterion
MCMaxCells2 == 2
MCMaxCritsFor2 == [n \in 1..2 |-> IF n = 1 THEN 2 ELSE 1]
\* simulation: ranges up to 15 cells (5 x 3), up to three criteria
SimMaxCells == 15
SimMaxCritsFor == [n \in 1..15 |-> 3]
MCFreeMax == 5
====
