----------------------------- MODULE MC_Formula -----------------------------
(* Constants for the runs of Formula (C02).                                 *)
(*   "prec": few operands, every operator, parentheses and calls: all       *)
(*           formulas up to MaxLen tokens (precedence and associativity)    *)
(*   "lit" : every literal and reference, few operators, short formulas     *)
(*   "sim" : everything, long formulas, sampled with -simulate              *)
EXTENDS Formula

\* text literals, as character codes (the harness doubles the quotes)
T1  == <<97, 34, 98>>            \* a"b        written "a""b"
T2  == <<97, 92, 98>>            \* a\b        backslash + a letter python escapes
T3  == <<120, 92>>               \* x\         trailing backslash
T4  == <<97, 10, 98>>            \* a<LF>b     a real line feed
T5  == <<123, 97, 125>>          \* {a}        braces
T6  == <<97, 92, 110, 98>>       \* a\nb       backslash, n: four characters
T7  == <<>>                      \* empty text
T8  == <<51>>                    \* 3          numeric text
T9  == <<92, 34>>                \* \"         backslash, quote: written "\"""
T10 == <<97, 13, 10, 98>>        \* a<CR><LF>b
T11 == <<39, 37, 35>>            \* '%#        apostrophe, percent, hash
T12 == <<65, 98>>                \* Ab         mixed case (equals "aB")
T13 == <<233, 128512, 26085>>    \* e-acute, an emoji beyond U+FFFF, a CJK character
\* text that is spelled like an error value is text: "#N/A"&"x" is "#N/Ax"
T14 == <<35, 78, 47, 65>>                    \* #N/A
T15 == <<35, 82, 69, 70, 33>>                \* #REF!
T16 == <<35, 69, 77, 80, 84, 89, 33>>        \* #EMPTY!   looks like an error value, is none

\* number literals by their characters; each denotes the number that the
\* same characters denote as numeric text (ExcelValues!ParseNum)
Numerals == [N1 |-> <<48, 48, 55>>,          \* 007
             N2 |-> <<48, 56>>,              \* 08       (no octal numeral either)
             N3 |-> <<48, 49, 48>>,          \* 010
             N4 |-> <<48, 48, 46, 53>>,      \* 00.5
             N5 |-> <<49, 46, 53, 48>>,      \* 1.50
             N6 |-> <<46, 53>>,              \* .5
             N7 |-> <<50, 46>>,              \* 2.
             N8 |-> <<49, 69, 48, 50>>,      \* 1E02
             N9 |-> <<48, 48>>]              \* 00

NamedLit == [x \in {"2", "3", "0.5", "1E2", "1E+2", "1.5E1", "1E-1", "TRUE", "FALSE",
                 "#N/A", "#DIV/0!", "#REF!",
                 "T1", "T2", "T3", "T4", "T5", "T6", "T7", "T8", "T9", "T10", "T11", "T12", "T13",
                 "T14", "T15", "T16"} |->
   CASE x = "2" -> IntV(2) [] x = "3" -> IntV(3) [] x = "0.5" -> Num(1, 2)
     [] x = "1E2" -> IntV(100) [] x = "1E+2" -> IntV(100) [] x = "1.5E1" -> IntV(15)
     [] x = "1E-1" -> Num(1, 10)
     [] x = "TRUE" -> TRUEV [] x = "FALSE" -> FALSEV
     [] x = "#N/A" -> Err("#N/A") [] x = "#DIV/0!" -> Err("#DIV/0!") [] x = "#REF!" -> Err("#REF!")
     [] x = "T1" -> Text(T1) [] x = "T2" -> Text(T2) [] x = "T3" -> Text(T3)
     [] x = "T4" -> Text(T4) [] x = "T5" -> Text(T5) [] x = "T6" -> Text(T6)
     [] x = "T7" -> Text(T7) [] x = "T8" -> Text(T8) [] x = "T9" -> Text(T9)
     [] x = "T10" -> Text(T10) [] x = "T11" -> Text(T11) [] x = "T12" -> Text(T12)
     [] x = "T13" -> Text(T13) [] x = "T14" -> Text(T14) [] x = "T15" -> Text(T15)
     [] x = "T16" -> Text(T16)]
MCLit == NamedLit @@ [x \in DOMAIN Numerals |-> ParseNum(Numerals[x])]

\* Known deviation (finding C02_r3_2): pycel represents an error value by
\* the text of its code and the empty operand by the text #EMPTY!, so the
\* text literals spelled that way are taken for the error value / for blank.
MCLitDev == [x \in {"T14", "T15", "T16"} |->
   CASE x = "T14" -> Err("#N/A") [] x = "T15" -> Err("#REF!") [] x = "T16" -> Blank]

MCRefs == {"A1", "B1"}
MCEnvs == << [A1 |-> IntV(-1),  B1 |-> Text(<<51>>)],       \* -1, "3"
             [A1 |-> Num(1, 2), B1 |-> TRUEV],              \* 0.5, TRUE
             [A1 |-> Blank,     B1 |-> Err("#N/A")] >>      \* blank, #N/A

AllBinary == {"^", "*", "/", "+", "-", "&", "=", "<>", "<", "<=", ">", ">="}
AllOperands == DOMAIN MCLit \cup MCRefs

PrecOperands == {"2", "3", "1E2"}
LitBinary == {"&", "=", "+", "^"}

\* the tables the harness needs to spell tokens and to bind references
ASSUME PrintT(ToJson([tables |-> [lit |-> MCLit, num |-> Numerals, envs |-> MCEnvs]]))

\* fixed points of the reference semantics (documentation that TLC checks)
V(t) == Value(t, MCEnvs[1])
ASSUME Examples ==
   /\ V(<<"u-", "2", "^", "2">>) = IntV(4)                      \* -2^2 = (-2)^2
   /\ V(<<"2", "^", "u-", "2">>) = Num(1, 4)
   /\ V(<<"u-", "2", "%">>) = Num(-1, 50)
   /\ V(<<"2", "-", "3", "%">>) = Num(197, 100)
   /\ V(<<"2", "^", "3", "^", "2">>) = IntV(64)                 \* left-associative
   /\ V(<<"2", "^", "1E2", "%">>) = IntV(2)                     \* % before ^
   /\ V(<<"2", "-", "3", "-", "2">>) = IntV(-3)
   /\ V(<<"2", "&", "3", "+", "2">>) = Text(<<50, 53>>)         \* "25"
   /\ V(<<"2", "=", "2", "&", "3">>) = FALSEV                   \* 2 = "23"
   /\ V(<<"2", "<", "3", "<", "2">>) = FALSEV                   \* TRUE < 2
   /\ V(<<"u-", "A1", "^", "2">>) = IntV(1)
   /\ V(<<"u-", "SUM(", "2", ",", "3", ")", "^", "2">>) = IntV(25)
   /\ V(<<"IF(", "2", ">", "3", ",", "2", ",", "3", ")", "%">>) = Num(3, 100)
   /\ V(<<"T1", "&", "T9">>) = Text(<<97, 34, 98, 92, 34>>)
   /\ V(<<"T12", "=", "T12">>) = TRUEV
   /\ V(<<"N1">>) = IntV(7) /\ V(<<"N2", "=", "N3">>) = FALSEV        \* 08 = 010 is 8 = 10
   /\ V(<<"N4">>) = Num(1, 2) /\ V(<<"N5">>) = Num(3, 2) /\ V(<<"N6">>) = Num(1, 2)
   /\ V(<<"N7">>) = IntV(2) /\ V(<<"N8">>) = IntV(100) /\ V(<<"N9">>) = IntV(0)
   /\ V(<<"u-", "N1", "^", "2">>) = IntV(49)
   /\ V(<<"T14", "&", "T7">>) = Text(T14)                          \* "#N/A"&"" is text
   /\ V(<<"T15", "+", "2">>) = VALUE                               \* "#REF!"+2
   /\ V(<<"T15", "=", "T15">>) = TRUEV
   /\ V(<<"T16">>) = Text(T16)
   /\ Tree(<<"u-", "2", "%", "^", "3">>) =
        <<"bin", "^", <<"un", "%", <<"un", "u-", <<"lit", "2">>>>>>, <<"lit", "3">>>>
   /\ Unparse(<<"bin", "^", <<"bin", "^", <<"lit", "2">>, <<"lit", "3">>>>, <<"lit", "2">>>>)
        = <<"2", "^", "3", "^", "2">>
   /\ Unparse(<<"bin", "^", <<"lit", "2">>, <<"bin", "^", <<"lit", "3">>, <<"lit", "2">>>>>>)
        = <<"2", "^", "(", "3", "^", "2", ")">>
   /\ Unparse(<<"un", "u-", <<"un", "%", <<"lit", "2">>>>>>) = <<"u-", "(", "2", "%", ")">>
=============================================================================
