----------------------------- MODULE MC_Formula -----------------------------
(* Constants for the runs of Formula (C02).                                 *)
(*   "prec": few operands, every operator, parentheses and calls: all       *)
(*           formulas up to MaxLen tokens (precedence and associativity)    *)
(*   "lit" : every literal and reference, few operators, short formulas     *)
(*   "ext" : the same for the literals and references of the second pool    *)
(*           (exponent numerals, texts that look like generated code, cells *)
(*           of sheets with special characters in their names) and the      *)
(*           functions of one argument                                      *)
(*   "sim" : everything, long formulas, sampled with -simulate              *)
(*   "nest", "code" : two or three operands, no operator but negation, the  *)
(*           functions of references: all nests up to MaxLen tokens         *)
(*   "arg" : a cell and a number, SUM, IF and OFFSET: all nests up to MaxLen  *)
(*           tokens (a reference made by a call where a value is wanted)    *)
(*   "ref" : few operands, every function: long formulas with references    *)
(*           and values nested in each other, sampled with -simulate        *)
EXTENDS Formula

\* text literals, as character codes (the harness doubles the quotes)
T1  == <<97, 34, 98>>            \* a"b        written "a""b"
T2  == <<97, 92, 98>>            \* a\b        backslash + a letter python escapes
T3  == <<120, 92>>               \* x\         trailing backslash
T4  == <<97, 10, 98>>            \* a<LF>b     a real line feed
T5  == <<123, 97, 125>>          \* {a}        braces
T6  == <<97, 92, 110, 98>>       \* a\nb       backslash, n: four characters
T7  == <<>>                      \* empty text
T8  == <<51>>                    \* 3          numeric text
T9  == <<92, 34>>                \* \"         backslash, quote: written "\"""
T10 == <<97, 13, 10, 98>>        \* a<CR><LF>b
T11 == <<39, 37, 35>>            \* '%#        apostrophe, percent, hash
T12 == <<65, 98>>                \* Ab         mixed case (equals "aB")
T13 == <<233, 128512, 26085>>    \* e-acute, an emoji beyond U+FFFF, a CJK character
\* text that is spelled like an error value is text: "#N/A"&"x" is "#N/Ax"
T14 == <<35, 78, 47, 65>>                    \* #N/A
T15 == <<35, 82, 69, 70, 33>>                \* #REF!
T16 == <<35, 69, 77, 80, 84, 89, 33>>        \* #EMPTY!   looks like an error value, is none
\* text that is spelled like a piece of the generated code is text: LEN("_C_") is 3
T17 == <<95, 67, 95>>                        \* _C_      (the name of the cell read)
T18 == <<120, 95, 82, 95>>                   \* x_R_     (the name of the range read, inside a word)
T19 == <<95, 82, 69, 70, 95>>                \* _REF_    (the name of the reference)

\* number literals by their characters; each denotes the number that the
\* same characters denote as numeric text (ExcelValues!ParseNum)
Numerals == [N1 |-> <<48, 48, 55>>,          \* 007
             N2 |-> <<48, 56>>,              \* 08       (no octal numeral either)
             N3 |-> <<48, 49, 48>>,          \* 010
             N4 |-> <<48, 48, 46, 53>>,      \* 00.5
             N5 |-> <<49, 46, 53, 48>>,      \* 1.50
             N6 |-> <<46, 53>>,              \* .5
             N7 |-> <<50, 46>>,              \* 2.
             N8 |-> <<49, 69, 48, 50>>,      \* 1E02
             N9 |-> <<48, 48>>,              \* 00
             \* scientific notation with a signed exponent, whatever the mantissa
             N10 |-> <<49, 50, 69, 43, 51>>,             \* 12E+3
             N11 |-> <<48, 46, 53, 69, 43, 51>>,         \* 0.5E+3
             N12 |-> <<50, 53, 69, 45, 49>>,             \* 25E-1
             N13 |-> <<49, 48, 46, 53, 101, 43, 49>>]    \* 10.5e+1

NamedLit == [x \in {"0", "1", "2", "3", "0.5", "1E2", "1E+2", "1.5E1", "1E-1", "TRUE", "FALSE",
                 "#N/A", "#DIV/0!", "#REF!",
                 "T1", "T2", "T3", "T4", "T5", "T6", "T7", "T8", "T9", "T10", "T11", "T12", "T13",
                 "T14", "T15", "T16", "T17", "T18", "T19"} |->
   CASE x = "0" -> IntV(0) [] x = "1" -> IntV(1) [] x = "2" -> IntV(2) [] x = "3" -> IntV(3) [] x = "0.5" -> Num(1, 2)
     [] x = "1E2" -> IntV(100) [] x = "1E+2" -> IntV(100) [] x = "1.5E1" -> IntV(15)
     [] x = "1E-1" -> Num(1, 10)
     [] x = "TRUE" -> TRUEV [] x = "FALSE" -> FALSEV
     [] x = "#N/A" -> Err("#N/A") [] x = "#DIV/0!" -> Err("#DIV/0!") [] x = "#REF!" -> Err("#REF!")
     [] x = "T1" -> Text(T1) [] x = "T2" -> Text(T2) [] x = "T3" -> Text(T3)
     [] x = "T4" -> Text(T4) [] x = "T5" -> Text(T5) [] x = "T6" -> Text(T6)
     [] x = "T7" -> Text(T7) [] x = "T8" -> Text(T8) [] x = "T9" -> Text(T9)
     [] x = "T10" -> Text(T10) [] x = "T11" -> Text(T11) [] x = "T12" -> Text(T12)
     [] x = "T13" -> Text(T13) [] x = "T14" -> Text(T14) [] x = "T15" -> Text(T15)
     [] x = "T16" -> Text(T16) [] x = "T17" -> Text(T17) [] x = "T18" -> Text(T18)
     [] x = "T19" -> Text(T19)]
MCLit == NamedLit @@ [x \in DOMAIN Numerals |-> ParseNum(Numerals[x])]

\* Known deviation (finding C02_r3_2): pycel represents an error value by
\* the text of its code and the empty operand by the text #EMPTY!, so the
\* text literals spelled that way are taken for the error value / for blank.
MCLitDev == [x \in {"T14", "T15", "T16"} |->
   CASE x = "T14" -> Err("#N/A") [] x = "T15" -> Err("#REF!") [] x = "T16" -> Blank]

\* References.  A1 and B1 are cells of the sheet that holds the formula (S);
\* Q1 .. Q5 are the cell A1 of five other sheets, written 'name'!A1 with the
\* apostrophes of the name doubled.  The names hold the characters that mean
\* something else elsewhere in a formula or in the generated code; W2 is W1
\* without its special character and holds another value in every environment.
SheetNames == [W1 |-> <<85, 83, 36>>,        \* US$     the marker of absolute references
               W2 |-> <<85, 83>>,            \* US      (needs no quoting: US!A1)
               W3 |-> <<105, 116, 39, 115>>, \* it's    written 'it''s'!A1
               W4 |-> <<97, 34, 98>>,        \* a"b     the delimiter of text literals
               W5 |-> <<95, 67, 95>>]        \* _C_     spelled like a piece of the generated code
MCRefAt == [A1 |-> <<"S", 1, 1>>, B1 |-> <<"S", 1, 2>>,
            Q1 |-> <<"W1", 1, 1>>, Q2 |-> <<"W2", 1, 1>>, Q3 |-> <<"W3", 1, 1>>,
            Q4 |-> <<"W4", 1, 1>>, Q5 |-> <<"W5", 1, 1>>]
MCRefs == DOMAIN MCRefAt
MCEnvs == << [A1 |-> IntV(-1),  B1 |-> Text(<<51>>),        \* -1, "3"
              Q1 |-> IntV(41), Q2 |-> IntV(1000), Q3 |-> IntV(7), Q4 |-> IntV(8),
              Q5 |-> IntV(9)],
             [A1 |-> Num(1, 2), B1 |-> TRUEV,               \* 0.5, TRUE
              Q1 |-> Num(5, 2), Q2 |-> IntV(-4), Q3 |-> Text(<<113>>), Q4 |-> FALSEV,
              Q5 |-> IntV(6)],
             [A1 |-> Blank,     B1 |-> Err("#N/A"),         \* blank, #N/A
              Q1 |-> IntV(3), Q2 |-> Blank, Q3 |-> Err("#DIV/0!"), Q4 |-> IntV(12),
              Q5 |-> Text(<<122>>)] >>

AllBinary == {"^", "*", "/", "+", "-", "&", "=", "<>", "<", "<=", ">", ">="}
AllOperands == DOMAIN MCLit \cup MCRefs
AllCalls == CallToks

\* the second pool of literals and references
ExtOperands == {"N10", "N11", "N12", "N13", "T17", "T18", "T19", "Q1", "Q2", "Q3", "Q4", "Q5"}
LitOperands == AllOperands \ (ExtOperands \cup {"0", "1"})
ExtPool == ExtOperands \cup {"2", "A1"}
ExtCalls == {"ROW(", "COLUMN(", "LEN("}

PrecOperands == {"2", "3", "1E2"}
LitBinary == {"&", "=", "+", "^"}

\* values nested in the arguments of references, references produced by calls:
\* every nest of ROW, OFFSET and negation over a cell and a number
NestOperands == {"A1", "1"}
NestCalls == {"ROW(", "OFFSET("}
\* a text that looks like generated code, counted where a reference is built
CodeOperands == {"A1", "1", "T17"}
CodeCalls == {"ROW(", "OFFSET(", "LEN("}

\* references handed on as values: a call that denotes a reference as an
\* argument of the calls that take values
ArgOperands == {"A1", "0"}
ArgCalls == {"SUM(", "IF(", "OFFSET("}

\* references and values nested in each other: cells of two sheets, the small
\* numbers that keep OFFSET near them, texts that differ only by what a
\* rewriting of the generated code would do to them
RefOperands == {"A1", "B1", "Q1", "0", "1", "2", "N12", "T17", "T19"}
RefBinary == {"+", "-", "=", "&"}

\* the tables the harness needs to spell tokens and to bind references
ASSUME PrintT(ToJson([tables |-> [lit |-> MCLit, num |-> Numerals, envs |-> MCEnvs,
                                  refs |-> MCRefAt, sheets |-> SheetNames]]))

\* fixed points of the reference semantics (documentation that TLC checks)
V(t) == Value(t, MCEnvs[1])
ASSUME Examples ==
   /\ V(<<"u-", "2", "^", "2">>) = IntV(4)                      \* -2^2 = (-2)^2
   /\ V(<<"2", "^", "u-", "2">>) = Num(1, 4)
   /\ V(<<"u-", "2", "%">>) = Num(-1, 50)
   /\ V(<<"2", "-", "3", "%">>) = Num(197, 100)
   /\ V(<<"2", "^", "3", "^", "2">>) = IntV(64)                 \* left-associative
   /\ V(<<"2", "^", "1E2", "%">>) = IntV(2)                     \* % before ^
   /\ V(<<"2", "-", "3", "-", "2">>) = IntV(-3)
   /\ V(<<"2", "&", "3", "+", "2">>) = Text(<<50, 53>>)         \* "25"
   /\ V(<<"2", "=", "2", "&", "3">>) = FALSEV                   \* 2 = "23"
   /\ V(<<"2", "<", "3", "<", "2">>) = FALSEV                   \* TRUE < 2
   /\ V(<<"u-", "A1", "^", "2">>) = IntV(1)
   /\ V(<<"u-", "SUM(", "2", ",", "3", ")", "^", "2">>) = IntV(25)
   /\ V(<<"IF(", "2", ">", "3", ",", "2", ",", "3", ")", "%">>) = Num(3, 100)
   /\ V(<<"T1", "&", "T9">>) = Text(<<97, 34, 98, 92, 34>>)
   /\ V(<<"T12", "=", "T12">>) = TRUEV
   /\ V(<<"N1">>) = IntV(7) /\ V(<<"N2", "=", "N3">>) = FALSEV        \* 08 = 010 is 8 = 10
   /\ V(<<"N4">>) = Num(1, 2) /\ V(<<"N5">>) = Num(3, 2) /\ V(<<"N6">>) = Num(1, 2)
   /\ V(<<"N7">>) = IntV(2) /\ V(<<"N8">>) = IntV(100) /\ V(<<"N9">>) = IntV(0)
   /\ V(<<"u-", "N1", "^", "2">>) = IntV(49)
   /\ V(<<"T14", "&", "T7">>) = Text(T14)                          \* "#N/A"&"" is text
   /\ V(<<"T15", "+", "2">>) = VALUE                               \* "#REF!"+2
   /\ V(<<"T15", "=", "T15">>) = TRUEV
   /\ V(<<"T16">>) = Text(T16)
   /\ V(<<"N10">>) = IntV(12000) /\ V(<<"N11">>) = IntV(500) /\ V(<<"N12">>) = Num(5, 2)
   /\ V(<<"N13">>) = IntV(105) /\ V(<<"2", "*", "N12">>) = IntV(5)
   /\ V(<<"Q1", "+", "1">>) = IntV(42) /\ V(<<"Q1", "+", "Q2">>) = IntV(1041)
   /\ V(<<"ROW(", "B1", ")">>) = IntV(1) /\ V(<<"COLUMN(", "(", "B1", ")", ")">>) = IntV(2)
   /\ V(<<"LEN(", "T17", ")">>) = IntV(3) /\ V(<<"LEN(", "T19", "&", "T18", ")">>) = IntV(9)
   /\ V(<<"OFFSET(", "A1", ",", "0", ",", "1", ")">>) = Text(<<51>>)        \* reads B1
   /\ V(<<"OFFSET(", "OFFSET(", "A1", ",", "1", ",", "1", ")", ",", "u-", "1", ",", "0", ")">>)
        = Text(<<51>>)                                                    \* B2, then B1
   /\ V(<<"COLUMN(", "OFFSET(", "A1", ",", "0", ",", "LEN(", "T17", ")", ")", ")">>) = IntV(4)
   /\ V(<<"ROW(", "OFFSET(", "Q1", ",", "SUM(", "Q1", ",", "1", ")", ",", "0", ")", ")">>) = IntV(43)
   /\ V(<<"ROW(", "OFFSET(", "A1", ",", "u-", "1", ",", "0", ")", ")">>) = Err("#REF!")
   /\ V(<<"OFFSET(", "A1", ",", "#N/A", ",", "0", ")">>) = Err("#N/A")
   /\ V(<<"SUM(", "OFFSET(", "A1", ",", "0", ",", "0", ")", ",", "1", ")">>) = IntV(0)   \* A1 + 1
   /\ V(<<"T17", "+", "0">>) = VALUE
   /\ V(<<"T17", "+", "OFFSET(", "A1", ",", "0", ",", "N12", ")">>) = U("any")   \* OFFSET by 2.5: open
   /\ Value(<<"OFFSET(", "A1", ",", "0", ",", "0", ")">>, MCEnvs[3]) = U("any")   \* a blank cell, open
   /\ Value(<<"u-", "OFFSET(", "A1", ",", "0", ",", "0", ")">>, MCEnvs[3]) = IntV(0)
   /\ Tree(<<"u-", "2", "%", "^", "3">>) =
        <<"bin", "^", <<"un", "%", <<"un", "u-", <<"lit", "2">>>>>>, <<"lit", "3">>>>
   /\ Unparse(<<"bin", "^", <<"bin", "^", <<"lit", "2">>, <<"lit", "3">>>>, <<"lit", "2">>>>)
        = <<"2", "^", "3", "^", "2">>
   /\ Unparse(<<"bin", "^", <<"lit", "2">>, <<"bin", "^", <<"lit", "3">>, <<"lit", "2">>>>>>)
        = <<"2", "^", "(", "3", "^", "2", ")">>
   /\ Unparse(<<"un", "u-", <<"un", "%", <<"lit", "2">>>>>>) = <<"u-", "(", "2", "%", ")">>
=============================================================================
