----------------------------- MODULE MC_Logical -----------------------------
(* Constants for the exhaustive runs of Logical (X01).                      *)
EXTENDS Logical

\* text of the pools, as character codes
S_TRUE  == <<84, 82, 85, 69>>            \* "TRUE"
S_true  == <<116, 114, 117, 101>>        \* "true"
S_False == <<70, 97, 108, 115, 101>>     \* "False"
S_abc   == <<97, 98, 99>>                \* "abc"
S_ABC   == <<65, 66, 67>>                \* "ABC"
S_empty == <<>>                          \* ""
S_3     == <<51>>                        \* "3"   numeric text
S_1     == <<49>>                        \* "1"
S_x     == <<120>>                       \* "x"

\* P: the full mixed pool (numbers incl. 0, negatives and fractions, logicals,
\* blank, text, three distinct errors)
PoolP == <<
   IntV(0), IntV(1), IntV(-1), IntV(2), IntV(3), Num(1, 2), Num(-5, 2), Num(3, 2),
   TRUEV, FALSEV,
   Blank,
   Text(S_TRUE), Text(S_true), Text(S_False), Text(S_abc), Text(S_empty), Text(S_3),
   NA, DIV0, VALUE >>

\* M: values to be matched / later conditions: the neutral values of every
\* type, the same word in two cases, 1 as number, text and logical
PoolM == <<
   IntV(0), IntV(1), Text(S_1), Text(S_abc), Text(S_ABC), Text(S_empty),
   TRUEV, FALSEV, Blank, NA >>

\* W, R: values that are only handed through (branches, results)
PoolW == << IntV(7), Text(S_x), Blank, Err("#REF!") >>
PoolR == << IntV(7), Blank, Err("#REF!") >>

\* I: the items of AND / OR / XOR
PoolI == <<
   Lit(IntV(0)), Lit(IntV(1)), Lit(IntV(-1)), Lit(IntV(2)), Lit(IntV(3)),
   Lit(Num(1, 2)), Lit(Num(-5, 2)), Lit(Num(3, 2)),
   Lit(TRUEV), Lit(FALSEV),
   Lit(Text(S_TRUE)), Lit(Text(S_true)), Lit(Text(S_False)), Lit(Text(S_abc)),
   Lit(Text(S_empty)), Lit(Text(S_3)),
   Lit(NA), Lit(DIV0), Lit(VALUE),
   Ref(Blank), Ref(Text(S_abc)), Ref(Text(S_TRUE)), Ref(Text(S_False)),
   Ref(TRUEV), Ref(FALSEV), Ref(IntV(0)), Ref(IntV(2)), Ref(NA), Ref(DIV0),
   Rng(<<TRUEV, Text(S_abc), Blank>>),
   Rng(<<Text(S_abc), Blank>>),                 \* nothing logical in it
   Rng(<<IntV(0), TRUEV>>),
   Rng(<<NA, DIV0>>),
   Rng(<<Text(S_TRUE)>>),                       \* the word TRUE in a cell: ignored
   Rng(<<FALSEV, DIV0, TRUEV>>),
   Rng(<<Blank, IntV(2), Text(S_False), TRUEV>>),
   Rng(<<Blank>>) >>

\* J: a smaller set of items for the third position (thorough tier)
PoolJ == <<
   Lit(TRUEV), Lit(FALSEV), Lit(IntV(0)), Lit(Text(S_true)), Lit(Text(S_abc)), Lit(NA),
   Ref(Blank), Ref(Text(S_abc)), Ref(TRUEV), Ref(DIV0),
   Rng(<<TRUEV, Text(S_abc), Blank>>), Rng(<<Text(S_abc), Blank>>),
   Rng(<<NA, DIV0>>), Rng(<<FALSEV, IntV(1)>>) >>

MCPools == [P |-> PoolP, M |-> PoolM, W |-> PoolW, R |-> PoolR, I |-> PoolI, J |-> PoolJ]

Unary == <<"NOT", "ISBLANK", "ISERR", "ISERROR", "ISNA", "ISLOGICAL", "ISNUMBER",
           "ISTEXT", "ISNONTEXT", "ISEVEN", "ISODD", "N">>
UnarySigs == [q \in 1..Len(Unary) |-> [f |-> Unary[q], sig |-> <<"P">>]]

\* quick tier
MCSigs == UnarySigs \o <<
   [f |-> "NA",      sig |-> <<>>],
   [f |-> "IF",      sig |-> <<"P", "W", "W">>],
   [f |-> "IFERROR", sig |-> <<"P", "P">>],
   [f |-> "IFNA",    sig |-> <<"P", "P">>],
   [f |-> "IFS",     sig |-> <<"P", "R", "M", "R">>],
   [f |-> "SWITCH",  sig |-> <<"M", "M", "R", "M">>],
   [f |-> "CHOOSE",  sig |-> <<"P", "R", "R", "R">>],
   [f |-> "AND",     sig |-> <<"I", "I">>],
   [f |-> "OR",      sig |-> <<"I", "I">>],
   [f |-> "XOR",     sig |-> <<"I", "I">>] >>

\* thorough tier: longer argument lists
MCSigsBig == UnarySigs \o <<
   [f |-> "NA",      sig |-> <<>>],
   [f |-> "IF",      sig |-> <<"P", "P", "W">>],
   [f |-> "IFERROR", sig |-> <<"P", "P">>],
   [f |-> "IFNA",    sig |-> <<"P", "P">>],
   [f |-> "IFS",     sig |-> <<"P", "R", "M", "R", "M", "R">>],
   [f |-> "SWITCH",  sig |-> <<"M", "M", "R", "M", "R", "R">>],
   [f |-> "CHOOSE",  sig |-> <<"P", "R", "R", "R", "W">>],
   [f |-> "AND",     sig |-> <<"I", "I", "J">>],
   [f |-> "OR",      sig |-> <<"I", "I", "J">>],
   [f |-> "XOR",     sig |-> <<"I", "I", "J">>] >>

\* a few fixed points of the definitions, as documentation that TLC checks
ASSUME Examples ==
   /\ Junction("AND", <<Lit(Text(S_TRUE)), Lit(TRUEV)>>) = {TRUEV}       \* AND("TRUE", TRUE)
   /\ Junction("AND", <<Lit(Text(S_False)), Lit(TRUEV)>>) = {FALSEV}     \* AND("False", TRUE)
   /\ Junction("AND", <<Lit(Text(S_abc)), Lit(TRUEV)>>) = {VALUE}        \* AND("abc", TRUE)
   /\ Junction("AND", <<Ref(Text(S_abc)), Lit(TRUEV)>>) = {TRUEV}        \* AND(A1, TRUE), A1 = "abc"
   /\ Junction("AND", <<Ref(Text(S_False)), Lit(TRUEV)>>) = {TRUEV}      \* text in a cell is ignored
   /\ Junction("OR", <<Rng(<<Text(S_abc), Blank>>)>>) = {VALUE}          \* nothing logical
   /\ Junction("OR", <<Rng(<<NA, DIV0>>), Lit(VALUE)>>) = {NA}           \* the first error
   /\ Junction("XOR", <<Lit(IntV(2)), Lit(TRUEV), Lit(Num(1, 2))>>) = {TRUEV}
   /\ Junction("XOR", <<Lit(TRUEV), Rng(<<IntV(0), TRUEV>>)>>) = {FALSEV}
   /\ NotF(Blank) = TRUEV /\ NotF(Text(S_true)) = FALSEV /\ NotF(Text(S_3)) = VALUE
   /\ If2(FALSEV, IntV(7)) = FALSEV                                      \* IF(FALSE, 7)
   /\ If3(Text(S_abc), IntV(1), IntV(2)) = VALUE
   /\ Ifs(<<FALSEV, IntV(1), Text(S_abc), IntV(2), TRUEV, IntV(3)>>) = VALUE
   /\ Ifs(<<TRUEV, IntV(1), Text(S_abc), IntV(2)>>) = IntV(1)
   /\ Ifs(<<IntV(0), IntV(1), Blank, IntV(2)>>) = NA
   /\ Switch(Text(S_ABC), <<Text(S_abc), IntV(1), IntV(2)>>) = {IntV(1)}   \* case-blind
   /\ Switch(IntV(1), <<Text(S_1), IntV(7), TRUEV, IntV(8)>>) = {NA}       \* type-ranked
   /\ Switch(Blank, <<IntV(0), IntV(7), IntV(8)>>) = {IntV(7), IntV(8)}    \* left open
   /\ Choose(Num(5, 2), <<IntV(7), IntV(8)>>) = IntV(8)                   \* 2.5 -> 2
   /\ Choose(Num(3, 2), <<IntV(7), IntV(8)>>) = IntV(7)                   \* 1.5 -> 1
   /\ Choose(Num(-5, 2), <<IntV(7), IntV(8)>>) = VALUE
   /\ Choose(Num(1, 2), <<IntV(7), IntV(8)>>) = VALUE
   /\ Choose(Text(S_3), <<IntV(7), IntV(8), IntV(9)>>) = IntV(9)
   /\ Choose(TRUEV, <<IntV(7), NA>>) = IntV(7)
   /\ Parity(TRUE, Num(-5, 2)) = {FALSEV} /\ Parity(FALSE, Num(-5, 2)) = {TRUEV}   \* -2.5 -> -2
   /\ Parity(TRUE, IntV(-1)) = {TRUEV}
   /\ Parity(FALSE, Blank) = {TRUEV} /\ Parity(FALSE, TRUEV) = {VALUE}
   /\ NF(Text(S_3)) = {Zero} /\ NF(TRUEV) = {One} /\ NF(DIV0) = {DIV0}
   /\ IsErrF(NA) = FALSEV /\ IsErrF(DIV0) = TRUEV
   /\ IsTextF(Text(S_empty)) = TRUEV /\ IsBlankF(Text(S_empty)) = FALSEV
   /\ IsNonTextF(Blank) = TRUEV /\ IsNumberF(TRUEV) = FALSEV
=============================================================================
