---------------------------- MODULE MC_Lookup ----------------------------
(* Constants for Lookup.tla: the pools and bounds of each tier.  A mode is  *)
(* one enumeration: a pool of cell values, a tuple of lookup values, the    *)
(* longest vector, the most blanks at either end, and w = 0 (export MATCH   *)
(* and INDEX on the vector) or the width 1..4 of the table whose key column  *)
(* the vector is (export VLOOKUP/HLOOKUP/LOOKUP/INDEX); width 1 with a       *)
(* vector of one cell is the 1 x 1 table.                                    *)
EXTENDS Lookup

S0  == Txt(<<>>)                 \* ""
Sa  == Txt(<<"a">>)
SA  == Txt(<<"A">>)              \* case twin of "a"
Sb  == Txt(<<"b">>)
Sab == Txt(<<"a", "b">>)
Sba == Txt(<<"b", "a">>)
Sap == Txt(<<"a", ".">>)         \* a letter and a punctuation character
Fa  == Bool(0)
Tr  == Bool(1)

\* every lookup value of the pool: blank, numbers below / between / above the
\* cell values (-2, 0, 1, 2), text with case twins, patterns with ? and *,
\* logicals, an error
LookAll == << Blank, Num(-3), Num(-1), Num(0), Num(1), Num(2), Num(3),
              S0, Sa, SA, Sb, Sab, Sba, Sap,
              Txt(<<"?">>), Txt(<<"a", "?">>), Txt(<<"a", "*">>),
              Txt(<<"*", "b">>), Txt(<<"*">>), Txt(<<"?", ".">>),
              Txt(<<"*", ".">>), Txt(<<"a", "*", "b">>),
              Fa, Tr, Err("#N/A") >>

LookTbl == << Blank, Num(0), Num(1), Num(2), Num(3), Sa, SA, Sb, Sba,
              Txt(<<"a", "*">>), Txt(<<"?">>), Fa, Tr, Err("#N/A") >>

\* pools of cell values
Wide   == {Num(-2), Num(0), Num(1), S0, Sa, SA, Sb, Sab, Sap, Fa, Tr,
           Err("#DIV/0!")}
Medium == {Num(-2), Num(1), Sa, SA, Sb, Sab, Tr}
Neutr  == {Num(0), Num(1), S0, Sa, Fa, Tr, Err("#N/A")}
Sorted == {Num(-2), Num(0), Num(1), Sa, SA, Sb, Fa, Tr, Err("#N/A")}
TblKey == {Num(1), Num(2), Sa, Sb, Tr}

Mode(pool, look, maxlen, maxz, srt, w) ==
  [pool |-> pool, look |-> look, maxlen |-> maxlen, maxz |-> maxz,
   srt |-> srt, w |-> w]

\* quick tier, exhaustive: every vector up to length 3 (wide pool) / 4,
\* every SORTED vector (ascending or descending) up to length 5 over a
\* 9-value pool, tables from 1 x 1 up to 4 x 3
QuickModes == << Mode(Wide,   LookAll, 3, 1, FALSE, 0),
                 Mode(Medium, LookAll, 4, 2, FALSE, 0),
                 Mode(Neutr,  LookAll, 4, 1, FALSE, 0),
                 Mode(Sorted, LookAll, 5, 1, TRUE,  0),
                 Mode(TblKey, LookTbl, 4, 1, FALSE, 2),
                 Mode(TblKey, LookTbl, 4, 1, FALSE, 3),
                 Mode(TblKey, LookTbl, 4, 1, FALSE, 1) >>

\* thorough tier, exhaustive part: every vector up to length 4 (10 values),
\* 6 (4 values), 5 (neutral values), 8 (one value per type); every sorted
\* vector up to length 6 (9 values) and 8 (6 values); tables 4 x 2, 5 x 3
\* and 6 x 4, and the one-column tables 1 x 1 .. 6 x 1
BigModes == << Mode(Wide \ {Sab, SA}, LookAll, 4, 1, FALSE, 0),
               Mode({Num(-2), Num(1), Sa, Tr}, LookAll, 6, 2, FALSE, 0),
               Mode(Neutr \ {Err("#N/A")}, LookAll, 5, 1, FALSE, 0),
               Mode({Num(1), Sa, Tr}, LookAll, 8, 1, FALSE, 0),
               Mode(Sorted, LookAll, 6, 1, TRUE,  0),
               Mode({Num(-2), Num(1), Sa, SA, Fa, Tr}, LookAll, 8, 1, TRUE, 0),
               Mode(TblKey \ {Sb}, LookTbl, 4, 1, FALSE, 2),
               Mode(TblKey \ {Sb}, LookTbl, 5, 1, FALSE, 3),
               Mode(TblKey \ {Sb}, LookTbl, 6, 1, FALSE, 4),
               Mode(TblKey, LookTbl, 6, 1, FALSE, 1) >>

\* thorough tier, random part (tlc -simulate): any order, the wide pool up
\* to length 8, and wide-pool tables 6 x 4 -- beyond what is exhaustive
SimModes == << Mode(Wide, LookAll, 8, 2, FALSE, 0),
               Mode(Wide, LookTbl, 6, 1, FALSE, 4) >>
=============================================================================
