---------------------------- MODULE MC_Operators ----------------------------
(* Constants for the exhaustive runs of Operators (C10).                    *)
EXTENDS Operators

MCOps == <<"+", "-", "*", "/", "^", "&", "=", "<>", "<", "<=", ">", ">=", "u-", "%">>
MCCmpOnly == <<"<=">>

\* text of the pool, as character codes
S_3     == <<51>>                    \* "3"      numeric text
S_m1    == <<45, 49>>                \* "-1"
S_05    == <<48, 46, 53>>            \* "0.5"
S_sp3sp == <<32, 51, 32>>            \* " 3 "    spaces around a numeral
S_a     == <<97>>                    \* "a"
S_A     == <<65>>                    \* "A"
S_b     == <<98>>                    \* "b"
S_empty == <<>>                      \* ""
S_3x    == <<51, 120>>               \* "3x"     starts like a number
\* text that Python's int()/float() accept and Excel does not (D18)
S_inf   == <<105, 110, 102>>         \* "inf"
S_nan   == <<110, 97, 110>>          \* "nan"
S_1_0   == <<49, 95, 48>>            \* "1_0"
\* numerals far from 1: a number beyond the exact fragment ("1e300" * "1e300"
\* is #NUM!, there is no infinity), a tiny one, and one beyond every number
\* ("1e400": no number can hold it, so it is other text, ="1e400"+0 is #VALUE!)
S_1e300   == <<49, 101, 51, 48, 48>>          \* "1e300"
S_m25e300 == <<45, 50, 46, 53, 69, 43, 51, 48, 48>>   \* "-2.5E+300"
S_1em300  == <<49, 101, 45, 51, 48, 48>>      \* "1e-300"
S_1e400   == <<49, 101, 52, 48, 48>>          \* "1e400"
\* digits which are not ASCII digits do not make numeric text
S_ar3   == <<1635>>                  \* ARABIC-INDIC DIGIT THREE
S_1sup2 == <<49, 178>>               \* "1" and SUPERSCRIPT TWO
S_fw12  == <<65297, 65298>>          \* FULLWIDTH DIGIT ONE, FULLWIDTH DIGIT TWO
\* text that spells a logical is text, not a logical and not numeric text:
\* "TRUE"+1 is #VALUE! (TRUE+1 is 2), "TRUE"&1 is "TRUE1", "TRUE" < TRUE
S_TRUE  == <<84, 82, 85, 69>>                \* "TRUE"
S_true  == <<116, 114, 117, 101>>            \* "true"
S_False == <<70, 97, 108, 115, 101>>         \* "False"
S_spFALSE == <<32, 70, 65, 76, 83, 69>>      \* " FALSE"  a space before it
\* text spelled like an error value is text: "#REF!"&"x" is "#REF!x", "#REF!"+1 is #VALUE!
S_ref   == <<35, 82, 69, 70, 33>>            \* "#REF!"
S_na    == <<35, 78, 47, 65>>                \* "#N/A"
S_empty_code == <<35, 69, 77, 80, 84, 89, 33>>   \* "#EMPTY!"  looks like one, is none

MCPool == <<
   IntV(0), IntV(1), IntV(-1), IntV(2), Num(1, 2), Num(-5, 2), IntV(3), IntV(100),
   Num(21, 2), IntV(400),
   Text(S_3), Text(S_m1), Text(S_05), Text(S_sp3sp),
   Text(S_a), Text(S_A), Text(S_b), Text(S_empty), Text(S_3x),
   Text(S_inf), Text(S_nan), Text(S_1_0),
   Text(S_1e300), Text(S_m25e300), Text(S_1em300), Text(S_1e400),
   Text(S_ar3), Text(S_1sup2), Text(S_fw12),
   Text(S_TRUE), Text(S_true), Text(S_False), Text(S_spFALSE),
   Text(S_ref), Text(S_na), Text(S_empty_code),
   TRUEV, FALSEV,
   Blank,
   Err("#NULL!"), Err("#DIV/0!"), Err("#VALUE!"), Err("#REF!"), Err("#NAME?"),
   Err("#NUM!"), Err("#N/A") >>

\* finding C10_r3_2: these texts are taken for the error value (the last for blank)
MCDev == (Text(S_ref) :> Err("#REF!")) @@ (Text(S_na) :> Err("#N/A"))
            @@ (Text(S_empty_code) :> Blank)

\* why the transitivity law excludes blank: blank = 0 and blank = "" but 0 < ""
ASSUME BlankBreaksTransitivity ==
   /\ ~TransitiveOn(Text(S_empty), Blank, IntV(0))
   /\ Cmp3(IntV(0), Blank) = 0 /\ Cmp3(Blank, Text(S_empty)) = 0 /\ Cmp3(Blank, FALSEV) = 0

\* a few fixed points of the definitions, as documentation that TLC checks
ASSUME Examples ==
   /\ ApplyS("+", Text(S_sp3sp), TRUEV) = IntV(4)           \* " 3 " + TRUE
   /\ ApplyS("+", Text(S_TRUE), IntV(1)) = VALUE            \* "TRUE" + 1: text, not the logical
   /\ ApplyS("*", IntV(5), Text(S_False)) = VALUE
   /\ ApplyS("+", Text(S_true), Err("#N/A")) = Err("#N/A")  \* an error operand goes first
   /\ ApplyS("+", Text(S_a), Text(S_TRUE)) = VALUE
   /\ Apply1S("u-", Text(S_spFALSE)) = VALUE
   /\ Apply1S("%", Text(S_true)) = VALUE
   /\ ApplyS("&", Text(S_TRUE), IntV(1)) = Text(S_TRUE \o <<49>>)
   /\ ApplyS("=", Text(S_true), TRUEV) = FALSEV             \* text < logical
   /\ ApplyS("=", Text(S_true), Text(S_TRUE)) = TRUEV
   /\ ApplyS("&", IntV(3), Num(1, 2)) = Text(<<51, 48, 46, 53>>)   \* 3 & 0.5 = "30.5"
   /\ ApplyS("&", TRUEV, Blank) = Text(TrueText)
   /\ ApplyS("^", IntV(-1), Num(1, 2)) = NUM                 \* (-1)^0.5
   /\ ApplyS("^", Num(21, 2), IntV(400)) = NUM               \* 10.5^400 overflows
   /\ ApplyS("^", IntV(2), IntV(-1)) = Num(1, 2)
   /\ ApplyS("^", IntV(0), IntV(-1)) = DIV0
   /\ ApplyS("/", Text(S_a), IntV(0)) = VALUE                \* coercion fails first
   /\ ApplyS("=", Text(S_3), IntV(3)) = FALSEV               \* numeric text is text
   /\ ApplyS("<", IntV(400), Text(S_empty)) = TRUEV          \* number < text
   /\ ApplyS(">", FALSEV, Text(S_b)) = TRUEV                 \* text < logical
   /\ ApplyS("=", Text(S_a), Text(S_A)) = TRUEV
   /\ ApplyS("+", Text(S_inf), IntV(1)) = VALUE
   /\ ApplyS("+", Text(S_ref), IntV(1)) = VALUE
   /\ ApplyS("+", Text(S_ar3), IntV(1)) = VALUE               \* not the number 3
   /\ ApplyS("*", IntV(2), Text(S_1sup2)) = VALUE
   /\ Apply1S("u-", Text(S_fw12)) = VALUE
   /\ ApplyS("&", Text(S_fw12), IntV(1)) = Text(S_fw12 \o <<49>>)
   /\ ApplyS("=", Text(S_ar3), IntV(3)) = FALSEV /\ ApplyS("=", Text(S_ar3), Text(S_3)) = FALSEV
   /\ ApplyS(">", Text(S_1sup2), IntV(400)) = TRUEV
   /\ ToNumS(Text(S_1e300)) = Big(1, 300) /\ ToNumS(Text(S_m25e300)) = Big(-1, 300)
   /\ ToNumS(Text(S_1em300)) = Big(1, -300)
   /\ ApplyS("+", Text(S_1e400), IntV(0)) = VALUE             \* no number can hold it
   /\ ApplyS("*", Text(S_1e400), IntV(0)) = VALUE             \* (not 0, not a not-a-number)
   /\ ApplyS("-", IntV(1), Text(S_1e400)) = VALUE
   /\ Apply1S("u-", Text(S_1e400)) = VALUE
   /\ ApplyS("&", Text(S_1e400), IntV(1)) = Text(S_1e400 \o <<49>>)
   /\ ApplyS(">", Text(S_1e400), IntV(400)) = TRUEV           \* it is text
   /\ ApplyS("*", Text(S_1e300), Text(S_1e300)) = NUM         \* 1E600: beyond the range
   /\ ApplyS("*", Text(S_1e300), Text(S_m25e300)) = NUM
   /\ ApplyS("/", Text(S_1e300), Text(S_1em300)) = NUM
   /\ ApplyS("^", Text(S_1e300), IntV(2)) = NUM
   /\ ApplyS("*", Text(S_1e300), Text(S_1em300)) = U("num")   \* about 1
   /\ ApplyS("*", Text(S_1e300), Blank) = Zero
   /\ ApplyS("/", Text(S_1e300), FALSEV) = DIV0
   /\ ApplyS("+", Text(S_1e300), Text(S_a)) = VALUE
   /\ ApplyS("+", Text(S_1e300), Text(S_1e300)) = U("num")    \* 2E300
   /\ ApplyS("^", Text(S_m25e300), Num(1, 2)) = NUM           \* no real root
   /\ Apply1S("%", Text(S_1e300)) = U("num")
   /\ ApplyS("&", Text(S_na), Text(S_a)) = Text(S_na \o S_a)
   /\ ApplyS("=", Text(S_na), Text(S_na)) = TRUEV
   /\ ApplyS(">", Text(S_ref), IntV(400)) = TRUEV            \* it is text: above every number
   /\ ApplyS("+", Err("#N/A"), Err("#REF!")) = Err("#N/A")
   /\ Apply1S("%", Text(S_05)) = Num(1, 200)
   /\ Apply1S("u-", Blank) = IntV(0)
=============================================================================
