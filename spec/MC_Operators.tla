---------------------------- MODULE MC_Operators ----------------------------
(* Constants for the exhaustive runs of Operators (C10).                    *)
EXTENDS Operators

MCOps == <<"+", "-", "*", "/", "^", "&", "=", "<>", "<", "<=", ">", ">=", "u-", "%">>
MCCmpOnly == <<"<=">>

\* text of the pool, as character codes
S_3     == <<51>>                    \* "3"      numeric text
S_m1    == <<45, 49>>                \* "-1"
S_05    == <<48, 46, 53>>            \* "0.5"
S_sp3sp == <<32, 51, 32>>            \* " 3 "    spaces around a numeral
S_a     == <<97>>                    \* "a"
S_A     == <<65>>                    \* "A"
S_b     == <<98>>                    \* "b"
S_empty == <<>>                      \* ""
S_3x    == <<51, 120>>               \* "3x"     starts like a number
\* text that Python's int()/float() accept and Excel does not (D18)
S_inf   == <<105, 110, 102>>         \* "inf"
S_nan   == <<110, 97, 110>>          \* "nan"
S_1_0   == <<49, 95, 48>>            \* "1_0"
\* text spelled like an error value is text: "#REF!"&"x" is "#REF!x", "#REF!"+1 is #VALUE!
S_ref   == <<35, 82, 69, 70, 33>>            \* "#REF!"
S_na    == <<35, 78, 47, 65>>                \* "#N/A"
S_empty_code == <<35, 69, 77, 80, 84, 89, 33>>   \* "#EMPTY!"  looks like one, is none

MCPool == <<
   IntV(0), IntV(1), IntV(-1), IntV(2), Num(1, 2), Num(-5, 2), IntV(3), IntV(100),
   Num(21, 2), IntV(400),
   Text(S_3), Text(S_m1), Text(S_05), Text(S_sp3sp),
   Text(S_a), Text(S_A), Text(S_b), Text(S_empty), Text(S_3x),
   Text(S_inf), Text(S_nan), Text(S_1_0),
   Text(S_ref), Text(S_na), Text(S_empty_code),
   TRUEV, FALSEV,
   Blank,
   Err("#NULL!"), Err("#DIV/0!"), Err("#VALUE!"), Err("#REF!"), Err("#NAME?"),
   Err("#NUM!"), Err("#N/A") >>

\* finding C10_r3_2: these texts are taken for the error value (the last for blank)
MCDev == (Text(S_ref) :> Err("#REF!")) @@ (Text(S_na) :> Err("#N/A"))
            @@ (Text(S_empty_code) :> Blank)

\* why the transitivity law excludes blank: blank = 0 and blank = "" but 0 < ""
ASSUME BlankBreaksTransitivity ==
   /\ ~TransitiveOn(Text(S_empty), Blank, IntV(0))
   /\ Cmp3(IntV(0), Blank) = 0 /\ Cmp3(Blank, Text(S_empty)) = 0 /\ Cmp3(Blank, FALSEV) = 0

\* a few fixed points of the definitions, as documentation that TLC checks
ASSUME Examples ==
   /\ Apply("+", Text(S_sp3sp), TRUEV) = IntV(4)            \* " 3 " + TRUE
   /\ Apply("&", IntV(3), Num(1, 2)) = Text(<<51, 48, 46, 53>>)   \* 3 & 0.5 = "30.5"
   /\ Apply("&", TRUEV, Blank) = Text(TrueText)
   /\ Apply("^", IntV(-1), Num(1, 2)) = NUM                 \* (-1)^0.5
   /\ Apply("^", Num(21, 2), IntV(400)) = NUM               \* 10.5^400 overflows
   /\ Apply("^", IntV(2), IntV(-1)) = Num(1, 2)
   /\ Apply("^", IntV(0), IntV(-1)) = DIV0
   /\ Apply("/", Text(S_a), IntV(0)) = VALUE                \* coercion fails first
   /\ Apply("=", Text(S_3), IntV(3)) = FALSEV               \* numeric text is text
   /\ Apply("<", IntV(400), Text(S_empty)) = TRUEV          \* number < text
   /\ Apply(">", FALSEV, Text(S_b)) = TRUEV                 \* text < logical
   /\ Apply("=", Text(S_a), Text(S_A)) = TRUEV
   /\ Apply("+", Text(S_inf), IntV(1)) = VALUE
   /\ Apply("+", Text(S_ref), IntV(1)) = VALUE
   /\ Apply("&", Text(S_na), Text(S_a)) = Text(S_na \o S_a)
   /\ Apply("=", Text(S_na), Text(S_na)) = TRUEV
   /\ Apply(">", Text(S_ref), IntV(400)) = TRUEV            \* it is text: above every number
   /\ Apply("+", Err("#N/A"), Err("#REF!")) = Err("#N/A")
   /\ Apply1("%", Text(S_05)) = Num(1, 200)
   /\ Apply1("u-", Blank) = IntV(0)
=============================================================================
