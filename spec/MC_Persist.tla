---- MODULE MC_Persist ----
EXTENDS Persist
MCInputs == {"A1"}
MCVals == {1, 2}
MCInit0 == [a \in MCInputs |-> 1]
====
