---- MODULE MC_Radix ----
EXTENDS Radix
Z == [i \in 1..10 |-> 0]
D(x) == x       \* readability
MCBases == {2, 8, 16}
\* octal / hex seeds sit 64 before each boundary (zero, max->min) and at a
\* few patterned interior points; binary starts at zero and walks all 1024
MCSeeds == [base \in MCBases |->
  IF base = 2 THEN {Z}
  ELSE IF base = 8 THEN
     { <<7,7,7,7,7,7,7,7,0,0>>, <<3,7,7,7,7,7,7,7,0,0>>,
       <<0,0,0,0,0,7,7,7,0,0>>, <<1,2,3,4,5,6,7,0,1,2>>,
       <<4,0,0,0,0,0,7,7,0,0>>, <<7,6,5,4,3,2,1,0,7,0>> }
  ELSE
     { <<15,15,15,15,15,15,15,15,12,0>>, <<7,15,15,15,15,15,15,15,12,0>>,
       <<0,0,0,0,0,0,15,15,12,0>>, <<1,2,3,4,5,6,7,8,9,10>>,
       <<8,0,0,0,0,0,0,15,12,0>>, <<15,14,13,12,11,10,9,8,7,6>>,
       <<0,0,9,15,15,15,15,15,12,0>> }]
MCSteps == [base \in MCBases |-> IF base = 2 THEN 1023 ELSE 128]
\* magnitudes 10^e: next to the ranges (10^3, 10^9, 10^12), beyond 2^63,
\* around the largest double (309 digits) and far beyond it
MCExps == {1, 2, 3, 6, 9, 12, 15, 19, 22, 100, 300, 306, 307, 308, 309, 310, 400}

ASSUME ScaleExamples ==
   /\ Scale(<<5, 1, 1>>, 2) = <<5, 1, 1, 0, 0>>
   /\ DecLess(<<5, 1, 1>>, <<5, 1, 2>>) /\ ~DecLess(<<5, 1, 2>>, <<5, 1, 2>>)
   /\ DecLess(<<9, 9>>, <<1, 0, 0>>)
   /\ InRange(2, <<TRUE, <<5, 1, 2>>>>) /\ ~InRange(2, <<FALSE, <<5, 1, 2>>>>)
   /\ ~InRange(2, <<TRUE, <<5, 1, 3>>>>)
   /\ InRange(8, <<FALSE, <<5, 1, 2>>>>)
   /\ ~InRange(16, <<FALSE, Scale(<<1>>, 12)>>) /\ InRange(16, <<FALSE, Scale(<<5>>, 11)>>)
   /\ ~ScaledInRange(16, <<FALSE, <<1>>>>, 12) /\ ScaledInRange(16, <<FALSE, <<5>>>>, 11)
   /\ ScaledInRange(2, <<TRUE, <<5, 1, 2>>>>, 0) /\ ~ScaledInRange(2, <<FALSE, <<5, 1, 2>>>>, 0)
   /\ ~BeyondDouble(<<1>>, 308) /\ BeyondDouble(<<1>>, 309) /\ ~BeyondDouble(<<0>>, 400)
   /\ NumeralTooLong(<<0,0,0,0,0,0,0,1,0,1>>, 9) /\ ~NumeralTooLong(<<0,0,0,0,0,0,0,1,0,1>>, 6)
   /\ ~NumeralTooLong(Z, 400)
====
