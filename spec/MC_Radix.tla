---- MODULE MC_Radix ----
EXTENDS Radix
Z == [i \in 1..10 |-> 0]
D(x) == x       \* readability
MCBases == {2, 8, 16}
\* octal / hex seeds sit 64 before each boundary (zero, max->min) and at a
\* few patterned interior points; binary starts at zero and walks all 1024
MCSeeds == [base \in MCBases |->
  IF base = 2 THEN {Z}
  ELSE IF base = 8 THEN
     { <<7,7,7,7,7,7,7,7,0,0>>, <<3,7,7,7,7,7,7,7,0,0>>,
       <<0,0,0,0,0,7,7,7,0,0>>, <<1,2,3,4,5,6,7,0,1,2>>,
       <<4,0,0,0,0,0,7,7,0,0>>, <<7,6,5,4,3,2,1,0,7,0>> }
  ELSE
     { <<15,15,15,15,15,15,15,15,12,0>>, <<7,15,15,15,15,15,15,15,12,0>>,
       <<0,0,0,0,0,0,15,15,12,0>>, <<1,2,3,4,5,6,7,8,9,10>>,
       <<8,0,0,0,0,0,0,15,12,0>>, <<15,14,13,12,11,10,9,8,7,6>>,
       <<0,0,9,15,15,15,15,15,12,0>> }]
MCSteps == [base \in MCBases |-> IF base = 2 THEN 1023 ELSE 128]
====
