--------------------------- MODULE MC_RefCompute ---------------------------
(* Constants of the runs of RefCompute (X02): RefCompute_mc.cfg is the      *)
(* quick tier, RefCompute_big.cfg the thorough tier.                        *)
EXTENDS RefCompute

\* the limits of an Excel sheet
XLMaxCol == 16384
XLMaxRow == 1048576

S == <<83>>          \* sheet "S": holds the formulas
T == <<84>>          \* sheet "T": a second sheet with other values
MCSheets == {S, T}
MCMain == S
MCHomes == {S, T}
AllModes == {"offset", "indirect", "text"}

\* the far corner of the sheet: XFC1048575:XFD1048576
FarWindow == <<(XLMaxCol - 1)..XLMaxCol, (XLMaxRow - 1)..XLMaxRow>>

\* ---- quick ------------------------------------------------------------
\* base rectangles of at most 2x2 with the top left cell in A1:B3 or in the
\* far corner, offsets -1..1, heights omitted / 0 / 1 / 3, widths omitted /
\* 0 / 2, base with and without a sheet prefix
MCWindows == { <<1..2, 1..3>>, FarWindow }
MCMaxBaseW == 2
MCMaxBaseH == 2
MCRowOffs == -1..1
MCColOffs == -1..1
MCHeights == {0, 1, 3}
MCWidths == {0, 2}
MCBaseSheets == {<<>>, T}
MCShifts == { <<1, 0>>, <<0, 1>>, <<2, 3>>, <<-1, -1>>, <<0 - (XLMaxCol - 2), 0 - (XLMaxRow - 2)>>,
              <<XLMaxCol - 3, XLMaxRow - 4>> }
MCTextSheets == {<<>>, T}
MCAbsStyles == {"none", "all", "col", "row"}
MCAlphabet == {65, 98, 49, 48, 36, 58}            \* A b 1 0 $ :
MCMaxLen == 4

\* texts with the reading expected of them
MCSpecialTexts == {
  <<<<88,70,68,49,48,52,56,53,55,54>>, "ref">>,                 \* XFD1048576
  <<<<90,49>>, "ref">>,                                         \* Z1
  <<<<65,65,49,58,65,90,50>>, "ref">>,                          \* AA1:AZ2
  <<<<90,90,57>>, "ref">>,                                      \* ZZ9
  <<<<122,50,54,58,97,97,50,55>>, "ref">>,                      \* z26:aa27
  <<<<88,70,69,49>>, "junk">>,                                  \* XFE1
  <<<<65,49,48,52,56,53,55,55>>, "junk">>,                      \* A1048577
  <<<<88,70,68,49,48,52,56,53,55,55>>, "junk">>,                \* XFD1048577
  <<<<88,70,69,49,48,52,56,53,55,54>>, "junk">>,                \* XFE1048576
  <<<<65,49,58,88,70,69,50>>, "junk">>,                         \* A1:XFE2
  <<<<65,49,58,65,49,48,52,56,53,55,55>>, "junk">>,             \* A1:A1048577
  <<<<65,65,65,65,49>>, "junk">>,                               \* AAAA1
  <<<<65,48>>, "junk">>,                                        \* A0
  <<<<65,49,58,66,48>>, "junk">>,                               \* A1:B0
  <<<<65,48,58,66,49>>, "junk">>,                               \* A0:B1
  <<<<97,98>>, "junk">>,                                        \* ab
  <<<<65,49,58,66,50,58>>, "junk">>,                            \* A1:B2:
  <<<<65,49,58,58,66,50>>, "junk">>,                            \* A1::B2
  <<<<83,33>>, "junk">>,                                        \* S!
  <<<<83,33,65,48>>, "junk">>,                                  \* S!A0
  <<<<84,33,65,49,58>>, "junk">>,                               \* T!A1:
  <<<<36,65,36,49,58,36,66,36,50>>, "ref">>,                    \* $A$1:$B$2
  <<<<97,49,58,98,50>>, "ref">>,                                \* a1:b2
  <<<<65,49,58,65,49>>, "ref">>,                                \* A1:A1
  <<<<83,33,65,49>>, "ref">>,                                   \* S!A1
  <<<<39,84,39,33,65,49,58,66,50>>, "ref">>,                    \* 'T'!A1:B2
  <<<<84,33,36,97,36,49>>, "ref">>,                             \* T!$a$1
  <<<<66,50,58,65,49>>, "open">>,                               \* B2:A1
  <<<<65,50,58,65,49>>, "open">>,                               \* A2:A1
  <<<<65,58,65>>, "open">>,                                     \* A:A
  <<<<49,58,50>>, "open">>,                                     \* 1:2
  <<<<65,49,58,66>>, "open">>,                                  \* A1:B
  <<<<65,48,49>>, "open">>,                                     \* A01
  <<<<65,49,58,66,50,58,67,51>>, "open">>,                      \* A1:B2:C3
  <<<<85,33,65,49>>, "open">>,                                  \* U!A1
  <<<<33,65,49>>, "open">>,                                     \* !A1
  <<<<83,33,65,49,58,83,33,66,50>>, "open">> }                  \* S!A1:S!B2

\* ---- thorough ---------------------------------------------------------
\* base rectangles of at most 3x3 with the top left cell in A1:C4 or in the
\* far corner, row offsets -2..2, column offsets -1..2, more sizes and styles
BGWindows == { <<1..3, 1..4>>, FarWindow }
BGMaxBaseW == 3
BGMaxBaseH == 3
BGRowOffs == -2..2
BGColOffs == -1..2
BGHeights == {0, 1, 2, 4}
BGWidths == {0, 1, 3}
BGTextSheets == {<<>>, S, T}
BGAlphabet == {65, 98, 49, 50, 48, 36, 58, 33, 83}    \* A b 1 2 0 $ : ! S
BGMaxLen == 5
===========================================================================
