---- MODULE MC_RefForms ----
EXTENDS RefForms
MCSheets == {"S", "T u"}
MCFormsAll == {"cell", "range", "inter", "union", "multi", "name1", "name2",
               "rowcol", "index", "ifref", "ucol", "urow", "cse", "mix"}
====
