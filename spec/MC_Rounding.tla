---- MODULE MC_Rounding ----
\* Constants of the quick (prefix MC) and the thorough (prefix Big)
\* configuration; negative numbers and functions cannot be written in a cfg.
EXTENDS Rounding

MCPhases == {"R", "M", "C"}
MCJs == 0..6
MCDs == -6..6
MCKmax == 1000000

\* MOD divisors m = p / 10^j: integers, binary-exact fractions (0.5, 0.25,
\* 0.125), plain decimals (0.1, 0.3, 0.01, 1.5 ...) and divisors as large as
\* the whole range; both signs
Signed(S) == S \cup {-x : x \in S}
MCDivisors == [jj \in 0..6 |->
  Signed(CASE jj = 0 -> {1, 2, 3, 7, 10, 64, 360, 1000, 999983, 1000000}
           [] jj = 1 -> {1, 3, 5, 7, 10, 15, 25, 70}           \* 0.1 0.3 0.5 0.7 1 1.5 2.5 7
           [] jj = 2 -> {1, 5, 25, 75, 100, 125, 300, 999}     \* 0.01 0.05 0.25 0.75 1 1.25 3 9.99
           [] jj = 3 -> {1, 125, 375, 1000, 2500}              \* 0.001 0.125 0.375 1 2.5
           [] jj = 4 -> {1, 625, 3333, 10000}
           [] jj = 5 -> {7, 3125, 100000}
           [] jj = 6 -> {1, 3, 15625, 500000, 1000000})]

\* significances +-0.25, +-0.5, +-1, +-2, +-5 in quarter units
MCSigs == Signed({1, 2, 4, 8, 20})

\* decimal significances +-0.05, +-0.1, +-0.2, +-0.3, +-0.35, +-1.5 in twentieths
\* (Rounding_dec.cfg, SigDen = 20): a decimal number is a multiple of them
\* although the binary quotient number/significance is not an integer
DecPhases == {"C"}
DecSigs == Signed({1, 2, 4, 6, 7, 30})

\* decimal significances in thousandths (Rounding_mil.cfg, SigDen = 1000):
\* +-0.07, +-0.14, +-0.28, +-0.57, +-0.071, +-4.1, +-8.3 -- the float quotient
\* of one of their multiples is off by more than its last bit
\* (2.03 / 0.07 = 29.000000000000004); scales up to 10^3 (32-bit arithmetic)
MilSigs == Signed({70, 140, 280, 570, 71, 4100, 8300})
MilJs == {0, 1, 2, 3}

\* quick: ~2e4 states
MCSmallMax == 16
MCGridStride == 333331
MCGridOffsets == {0, 7919}
MCRun  == [x \in MCPhases |-> IF x = "R" THEN 5 ELSE 2]
MCJump == [x \in MCPhases |-> IF x = "R" THEN 9973 ELSE 99991]

\* thorough: ~4e5 states, denser everywhere (the harness partitions this
\* configuration by phase and scale and adds seed-dependent grid offsets)
BigSmallMax == 300
BigGridStride == 9973
BigGridOffsets == {0, 1237, 4001, 7577}
BigRun  == [x \in MCPhases |-> IF x = "R" THEN 8 ELSE 3]
BigJump == [x \in MCPhases |-> IF x = "R" THEN 1999 ELSE 49999]
====
