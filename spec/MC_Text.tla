---- MODULE MC_Text ----
(* Constants of the quick tier: every text up to 4 characters over          *)
(* {a, b, space, A, e-acute}, positions -1..10, and a pool of numbers       *)
(* k/10^j chosen around the rounding ties for TEXT().                       *)
EXTENDS Text
MCAlphabet == {1, 2, 3, 4, 5}
MCMaxLen   == 4
MCSeeds    == {<<>>}
MCPos      == -1..10
\* n.5 and n.9: cut off, not rounded
MCTenths   == {5, 9}
\* "", "b", CJK+"a", "3" (a text that is also passed as the number 3.0)
MCNewTexts == {<<>>, <<2>>, <<8, 1>>, <<13>>}
MCFindLen  == 2
MCFmtMax   == 5
\* <<k, j>> = k / 10^j: whole numbers (3 and 3.0), ties at every scale
\* (0.5, 2.5, 0.125, 0.005, 1.005, 0.145), carries (9.995, 999.5), thousands
MCNums == {<<0, 0>>, <<3, 0>>, <<12, 0>>, <<120, 0>>, <<-7, 0>>, <<1234567, 0>>,
           <<5, 1>>, <<25, 1>>, <<-25, 1>>, <<15, 1>>, <<12345, 1>>, <<9995, 1>>,
           <<125, 3>>, <<-125, 3>>, <<5, 3>>, <<1005, 3>>, <<145, 3>>, <<9995, 3>>,
           <<45, 2>>, <<-125, 2>>, <<2675, 3>>, <<4, 1>>, <<49, 2>>, <<51, 2>>,
           <<123456, 2>>, <<999999, 3>>, <<5, 4>>, <<15, 4>>, <<-5, 4>>, <<12, 4>>}
\* numbers whose decimal point is moved through every magnitude from 10^-25 to
\* 10^22 or so: 1 (10^21 is "1E+21", 10^-5 is "0.00001") and -2.5 (a digit
\* after the point of the exponent notation: "-2.5E-21"); the thorough tier
\* adds 1203 and random numbers of up to nine digits
MCScaled == {<<1, 0>>, <<-25, 1>>}
MCScaleJ == -22..25
====
