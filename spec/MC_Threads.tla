---- MODULE MC_Threads ----
EXTENDS Threads
MCThr == {1, 2}
\* numbers scaled by 2^16: tolerance 2^-4 = 4096, 2^-8 = 256
WIterA == [kind |-> "iter", x0 |-> 0, b |-> 65536, n |-> 100, tol |-> 4096]
WIterB == [kind |-> "iter", x0 |-> 0, b |-> 131072, n |-> 3, tol |-> 256]
WArrA  == [kind |-> "array", x0 |-> 0, shape |-> <<2, 2>>, target |-> <<3, 3>>]
WArrB  == [kind |-> "array", x0 |-> 0, shape |-> <<2, 2>>, target |-> <<1, 4>>]
WPlain == [kind |-> "plain", x0 |-> 5]
WRefA  == [kind |-> "ref", x0 |-> 1]
WRefB  == [kind |-> "ref", x0 |-> 10]
WLoadA == [kind |-> "load", x0 |-> 0, cells |-> 3]
WLoadB == [kind |-> "load", x0 |-> 0, cells |-> 2]
WorkLL == 1 :> WLoadA @@ 2 :> WLoadB
WorkLP == 1 :> WLoadA @@ 2 :> WPlain
WorkRR == 1 :> WRefA @@ 2 :> WRefB
WorkRA == 1 :> WRefA @@ 2 :> WArrB
WorkII == 1 :> WIterA @@ 2 :> WIterB
WorkIA == 1 :> WIterA @@ 2 :> WArrB
WorkAA == 1 :> WArrA @@ 2 :> WArrB
WorkIP == 1 :> WIterB @@ 2 :> WPlain
WorkAP == 1 :> WArrA @@ 2 :> WPlain
====
