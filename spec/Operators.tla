----------------------------- MODULE Operators -----------------------------
(***************************************************************************)
(* C10 -- every operator is a total function on the scalar universe and    *)
(* follows Excel's coercion, error and ordering rules.                     *)
(*                                                                         *)
(* The definitions are in ExcelValues (and below: text that spells a       *)
(* logical, text with digits of other scripts, numerals beyond the         *)
(* numbers, results beyond the numbers).  This module is the enumerator:   *)
(* the state is a cursor (operator, a, b[, c]) through Ops x Pool x Pool   *)
(* (Pool^3 when Triples), the laws named in the property are invariants    *)
(* over the definitions, and every visited state is exported as one test   *)
(* vector (operands and the defined result) for the real code.             *)
(***************************************************************************)
EXTENDS ExcelValues, Json

CONSTANTS Ops,       \* sequence of operator names; unary ones ("u-", "%") use a only
          Pool,      \* sequence of values (numbers, text, logicals, blank, errors)
          Triples,   \* FALSE: walk pairs for every operator
                     \* TRUE : walk triples (the comparison order) once
          Dev        \* [some values -> value]: a known deviation of the implementation,
                     \* given as another reading of some operands (see DevResult)

VARIABLES o, i, j, k,      \* indices into Ops, Pool, Pool, Pool
          res              \* the defined result at the cursor (a function of
                           \* o, i, j: kept in the state so that it is computed once)
vars == <<o, i, j, k, res>>

N == Len(Pool)
Op == Ops[o]
A == Pool[i]
B == Pool[j]
C == Pool[k]
Unary == Op \in UnaryOps

--------------------------------------------------------------------------
(* Text that spells a logical -- TRUE or FALSE in any mix of upper and     *)
(* lower case, spaces around it or not -- is text.  It is not a logical    *)
(* and it is not numeric text, so it is "other text" to arithmetic:        *)
(* ="TRUE"+1, ="false"*5 and =-"True" are #VALUE! in Excel; only the       *)
(* logical TRUE counts as 1.  (& and the comparisons take it as the text   *)
(* it is: "TRUE"&1 is "TRUE1", "TRUE" < TRUE.)  ExcelValues!ParseNum       *)
(* leaves these words open (U("any")); the operators of C10 decide them:   *)
(* ToNumS / ArithS / ApplyS are ToNum / Arith / Apply with this refinement *)
(* and the ones of the next two sections.                                  *)
SpellsLogical(v) == /\ IsText(v)
                    /\ (LowerIs(Trim(v[2]), TrueWord) \/ LowerIs(Trim(v[2]), FalseWord))

--------------------------------------------------------------------------
(* The digits of a numeral are the ten ASCII digits.  The other characters *)
(* Unicode classes as digits -- the decimal digits of other scripts        *)
(* (ARABIC-INDIC DIGIT THREE, DEVANAGARI, FULLWIDTH DIGIT ONE ...) and the  *)
(* superscript and subscript digits -- do not make numeric text: such a    *)
(* text plus 1, "1" with SUPERSCRIPT TWO times 2, minus a text of two      *)
(* FULLWIDTH digits are #VALUE!; & joins such text unchanged and the       *)
(* comparisons take it as text (equal to itself, above every number).      *)
(* ExcelValues!ParseNum leaves everything outside printable ASCII open;    *)
(* the operators of C10 decide text that consists of such digits and of    *)
(* the ASCII characters ParseNum decides.                                  *)
DigitLike(c) == \/ c \in {178, 179, 185}              \* superscript two, three, one
                \/ (c >= 1632 /\ c <= 1641)          \* ARABIC-INDIC DIGIT ZERO .. NINE
                \/ (c >= 1776 /\ c <= 1785)          \* EXTENDED ARABIC-INDIC
                \/ (c >= 2406 /\ c <= 2415)          \* DEVANAGARI
                \/ c = 8304 \/ (c >= 8308 /\ c <= 8313)   \* superscript zero, four .. nine
                \/ (c >= 8320 /\ c <= 8329)          \* subscript zero .. nine
                \/ (c >= 65296 /\ c <= 65305)        \* FULLWIDTH DIGIT ZERO .. NINE
ForeignDigits(v) ==
   /\ IsText(v)
   /\ \E p \in 1..Len(v[2]) : DigitLike(v[2][p])
   /\ \A p \in 1..Len(v[2]) : \/ DigitLike(v[2][p])
                               \/ (v[2][p] >= 32 /\ v[2][p] <= 126 /\ ~GrayChar(v[2][p]))

--------------------------------------------------------------------------
(* Numbers beyond the exact fragment of ExcelValues, and text beyond the   *)
(* numbers.  A number of Excel is a double: finite, of magnitude below     *)
(* 1.8E308 (Excel itself stops at 9.99999999999999E307).  Nothing else is  *)
(* a number: no operator returns an infinity or a not-a-number, and text   *)
(* that spells a numeral which no number can hold ("1e400", "-1E+999") is  *)
(* not numeric text.  So                                                   *)
(*   * such text is "other text": ="1e400"+0 is #VALUE! (VALUE("1e400")    *)
(*     is #VALUE! in Excel, and typed into a cell 1e400 stays text);       *)
(*   * arithmetic whose exact result lies beyond the range is #NUM!:       *)
(*     ="1e300"*"1e300", ="1e300"/"1e-300" (as 10.5^400 is, see NPow).     *)
(* ExcelValues!ParseNum leaves numerals whose value does not fit 32 bits   *)
(* open (U("any")).  Here they are read as far as the range question needs *)
(* it: the sign and the decimal exponent of the leading digit.             *)
(*     <<"G", sg, e>>   a number of sign sg (1, -1) and of magnitude in    *)
(*                      [10^e, 10^(e+1)), -307 <= e <= 307, digits unknown *)
(* G values live inside this module only (operands after coercion); a      *)
(* result that is such a number is exported as U("num").                   *)

Big(sg, e) == <<"G", sg, e>>
IsBig(v)   == Tag(v) = "G"
IsNumber(v) == IsNumV(v) \/ IsBig(v)

(* The numeral grammar of ExcelValues!ParseNum, read for sign and          *)
(* magnitude only: <<sg, e>> for a well-formed numeral with at most nine   *)
(* digits of mantissa (not all 0) and at most nine digits of exponent,     *)
(* <<>> for everything else (ParseNum decides those).                      *)
Sci(s) ==
  LET t      == Trim(s)
      n      == Len(t)
      sl     == IF At(t, 1) = 43 \/ At(t, 1) = 45 THEN 1 ELSE 0
      sg     == IF At(t, 1) = 45 THEN -1 ELSE 1
      ip     == Run(t, sl + 1, 0, 0)
      dot    == At(t, ip[3]) = 46
      fp     == IF dot THEN Run(t, ip[3] + 1, 0, 0) ELSE <<0, 0, ip[3]>>
      me     == fp[3]
      hasE   == At(t, me) = 69 \/ At(t, me) = 101
      el     == IF hasE /\ (At(t, me + 1) = 43 \/ At(t, me + 1) = 45) THEN 1 ELSE 0
      eg     == IF hasE /\ At(t, me + 1) = 45 THEN -1 ELSE 1
      ex     == IF hasE THEN Run(t, me + 1 + el, 0, 0) ELSE <<0, 0, me>>
      wellformed == /\ ip[2] + fp[2] > 0 /\ ip[2] + fp[2] <= 9
                    /\ hasE => ex[2] > 0
                    /\ ex[3] = n + 1
      m      == ip[1] * Pow10(fp[2]) + fp[1]          \* the mantissa without its point
  IN  IF ~wellformed THEN <<>>
      ELSE IF m = 0 THEN <<>>
      ELSE <<sg, NumDigits(m) - 1 - fp[2] + eg * ex[1]>>

\* the numeral lies beyond every number: 1E309 and up (between the largest
\* number of Excel and 1E309 the statement does not decide: see ToNumS)
Beyond(v) == /\ IsText(v)
             /\ LET m == Sci(v[2]) IN IF m = <<>> THEN FALSE ELSE m[2] >= 309

\* number (N or G), #VALUE!, or U
ToNumS(v) ==
  IF SpellsLogical(v) \/ ForeignDigits(v) THEN VALUE
  ELSE IF ~IsText(v) THEN ToNum(v)
  ELSE LET r == ParseNum(v[2])
           m == Sci(v[2])
       IN  IF ~IsU(r) \/ m = <<>> THEN r              \* exact, or not a plain numeral
           ELSE IF m[2] >= 309 THEN VALUE             \* no number can hold it: other text
           ELSE IF m[2] >= 308 THEN U("any")          \* a double, not a number of Excel
           ELSE IF m[2] <= -308 THEN U("any")         \* 0, a denormal, or not a number: open
           ELSE Big(m[1], m[2])

\* bounds <<lo, hi>> of the decimal exponent of a number which is not 0
\* (an exact number has numerator and denominator below 10^9)
ExpOf(x) == IF IsBig(x) THEN <<x[3], x[3]>>
            ELSE IF Abs(x[2]) >= x[3]
                 THEN LET e == NumDigits(Abs(x[2]) \div x[3]) - 1 IN <<e, e>>
                 ELSE <<-10, -1>>
SignOf(x) == IF IsBig(x) THEN x[2] ELSE Sgn(x[2])
IsZeroNum(x) == IsNumV(x) /\ IsZero(x)

\* a result whose decimal exponent lies in [lo, hi]: beyond the range it is
\* #NUM!, within (a tiny result is 0 or nearly 0) it is a number; 1E308 up
\* to 1E309 is where the doubles end: open
Ranged(lo, hi) == IF lo >= 309 THEN NUM
                  ELSE IF hi <= 307 THEN U("num")
                  ELSE U("any")

Max2(a, b) == IF a > b THEN a ELSE b

\* x ^ q for a G number x and an exact integer q # 0
BigPowInt(x, q) ==
  LET e == x[3]  n == Abs(q) IN
  IF ~MulFits(Abs(e) + 1, n) THEN U("any")
  ELSE IF q > 0 THEN Ranged(e * n, (e + 1) * n - 1)
  ELSE Ranged(-((e + 1) * n), -(e * n))

(* + - * / ^ on two numbers of which at least one is a G number (or an     *)
(* exact number and an unmodelled one).  Only the magnitude is followed.   *)
BigArith(op, x, y) ==
  IF IsU(x) \/ IsU(y) THEN U("any")
  ELSE LET ex == IF IsZeroNum(x) THEN <<0, 0>> ELSE ExpOf(x)
           ey == IF IsZeroNum(y) THEN <<0, 0>> ELSE ExpOf(y)
       IN
  CASE op \in {"+", "-"} ->
         IF IsZeroNum(x) \/ IsZeroNum(y) THEN U("num")       \* the other operand, or minus it
         ELSE IF Max2(ex[2], ey[2]) + 1 <= 307 THEN U("num")
         ELSE U("any")
    [] op = "*" ->
         IF IsZeroNum(x) \/ IsZeroNum(y) THEN Zero
         ELSE Ranged(ex[1] + ey[1], ex[2] + ey[2] + 1)
    [] op = "/" ->
         IF IsZeroNum(y) THEN DIV0
         ELSE IF IsZeroNum(x) THEN Zero
         ELSE Ranged(ex[1] - ey[2] - 1, ex[2] - ey[1])
    [] op = "^" ->
         IF IsZeroNum(y) THEN One                             \* x is not 0 here
         ELSE IF IsZeroNum(x) THEN (IF SignOf(y) > 0 THEN Zero ELSE DIV0)
         ELSE IF IsBig(x) /\ IsNumV(y)
              THEN IF IsIntegral(y) THEN BigPowInt(x, y[2])
                   ELSE IF SignOf(x) < 0 THEN NUM             \* no real power
                   ELSE U("any")
         ELSE U("any")                                        \* a huge or tiny exponent

\* + - * / ^ : an error operand first (the left one first), then the
\* coercion failures (the left one first), as in ExcelValues!Arith, with
\* ToNumS as the coercion
ArithS(op, a, b) ==
  LET p == Propagate(a, b)
      x == IF IsU(a) THEN a ELSE ToNumS(a)
      y == IF IsU(b) THEN b ELSE ToNumS(b)
  IN  IF p # Go THEN p
      ELSE IF IsErr(x) THEN x
      ELSE IF IsU(x) /\ x[2] # "num" THEN U("any")  \* a might fail: which error is open
      ELSE IF IsErr(y) THEN y
      ELSE IF IsU(y) /\ y[2] # "num" THEN U("any")
      ELSE IF IsBig(x) \/ IsBig(y) THEN BigArith(op, x, y)
      ELSE Arith(op, x, y)                          \* two numbers: ToNum leaves them alone

ApplyS(op, a, b) == IF op \in ArithOps THEN ArithS(op, a, b) ELSE Apply(op, a, b)
Apply1S(op, a) ==
  CASE op = "u-" -> IF IsErr(a) THEN a ELSE ArithS("-", Zero, a)
    [] op = "%"  -> IF IsErr(a) THEN a ELSE ArithS("/", a, IntV(100))
    [] op = "u+" -> a

\* the operator at the cursor applied by these definitions
Result(oo, ii, jj) == IF Ops[oo] \in UnaryOps THEN Apply1S(Ops[oo], Pool[ii])
                      ELSE ApplyS(Ops[oo], Pool[ii], Pool[jj])

(* A known deviation (finding C10_r3_2): pycel represents an error value by *)
(* the text of its code, so a text operand spelled like one is taken for   *)
(* the error value.  Dev maps such operands to what they are taken for.    *)
(* The defined result never depends on Dev; the deviant result is exported *)
(* next to it so that the harness attributes a discrepancy to the          *)
(* deviation exactly when the code returns the deviant result.  <<>>: the  *)
(* operands at the cursor have no deviant reading.                         *)
Dv(v) == IF v \in DOMAIN Dev THEN Dev[v] ELSE v
Apply2(op, a, b) == IF op \in UnaryOps THEN Apply1S(op, a) ELSE ApplyS(op, a, b)
DevResult == IF A \in DOMAIN Dev \/ (~Unary /\ B \in DOMAIN Dev)
             THEN Apply2(Op, Dv(A), Dv(B)) ELSE <<>>

\* Init chooses the operator and the left operand (and, for triples, the
\* middle one); the cursor then advances through the last operand.
Init == /\ o \in (IF Triples THEN {1} ELSE 1..Len(Ops))
        /\ i \in 1..N
        /\ j \in (IF Triples THEN 1..N ELSE {1})
        /\ k = 1
        /\ res = Result(o, i, j)

NextB == /\ ~Triples /\ ~Unary /\ j < N          \* next right operand
         /\ j' = j + 1 /\ res' = Result(o, i, j + 1)
         /\ UNCHANGED <<o, i, k>>
NextC == /\ Triples /\ k < N                     \* next third operand
         /\ k' = k + 1 /\ UNCHANGED <<o, i, j, res>>
Next == NextB \/ NextC
Spec == Init /\ [][Next]_vars

TypeOK == /\ o \in 1..Len(Ops) /\ i \in 1..N /\ j \in 1..N /\ k \in 1..N
          /\ res = Result(o, i, j)

R == res          \* the defined result at the cursor

B2N(p) == IF p THEN 1 ELSE 0

Scalar(v) == IsNumV(v) \/ IsText(v) \/ IsBool(v) \/ IsBlank(v)   \* not an error

--------------------------------------------------------------------------
(* the laws (pair mode) *)

\* a number, text, logical or error (or the explicit "not modelled" marker)
Total == IsResult(R)

\* what an operator returns is an operand again: it is equal to itself,
\* exactly one of r < 0, r = 0, r > 0 holds and r & "" is its rendering (an
\* infinity or a not-a-number would be neither); an error value comes back
\* (a comparison of two numbers which 32 bits cannot decide is left open)
Closed == LET r == R  e == Text(<<>>)
              eq == Compare("=", r, r)  ne == Compare("<>", r, r) IN
   /\ IsErr(r) => eq = r /\ Concat(r, e) = r
   /\ (~IsErr(r) /\ ~IsU(r)) =>
        /\ eq \in {TRUEV, U("bool")} /\ ne \in {FALSEV, U("bool")}
        /\ B2N(Compare("<", r, Zero) = TRUEV) + B2N(Compare("=", r, Zero) = TRUEV)
             + B2N(Compare(">", r, Zero) = TRUEV) = 1
        /\ Render(r) # NoRender => Concat(r, e) = Text(Render(r))

\* an error operand is returned unchanged, the left one first
ErrLeftFirst == /\ IsErr(A) => R = A
                /\ (~Unary /\ ~IsErr(A) /\ IsErr(B)) => R = B

\* x / 0 = #DIV/0! whenever x is something arithmetic accepts
DivZeroCase == Op = "/" /\ Scalar(A) /\ Scalar(B) /\ IsNumber(ToNumS(A)) /\ ToNumS(B) = Zero
DivZero == DivZeroCase => R = DIV0

\* arithmetic: logicals, blanks and numeric text count as their numbers;
\* other text is #VALUE!
Coercion == (Op \in ArithOps /\ Scalar(A) /\ Scalar(B)) =>
   LET na == ToNumS(A)  nb == ToNumS(B)  r == R IN
   /\ (IsNumV(na) /\ IsNumV(nb)) => r = ApplyS(Op, na, nb)
   /\ (na = VALUE \/ (IsNumber(na) /\ nb = VALUE)) => r = VALUE

\* text that spells a logical is other text to arithmetic, whatever the
\* other operand is (error operands go first; an operand whose own reading
\* is open leaves open which error it is)
WordCase == (Op \in ArithOps \/ Unary) /\ Scalar(A) /\ (Unary \/ Scalar(B))
            /\ (SpellsLogical(A) \/ (~Unary /\ SpellsLogical(B)))
WordIsText == WordCase => /\ R \in {VALUE, U("any")}
                          /\ (Unary \/ IsNumber(ToNumS(A)) \/ SpellsLogical(A)) => R = VALUE

\* text that spells a numeral beyond every number is other text to
\* arithmetic as well; to & and to the comparisons it is the text it is
BeyondCase == (Op \in ArithOps \/ Unary) /\ Scalar(A) /\ (Unary \/ Scalar(B))
              /\ (Beyond(A) \/ (~Unary /\ Beyond(B)))
BeyondIsText ==
   /\ BeyondCase => /\ R \in {VALUE, U("any")}
                    /\ (Unary \/ IsNumber(ToNumS(A)) \/ Beyond(A)) => R = VALUE
   /\ (Op = "&" /\ Beyond(A) /\ Scalar(B)) => (IsU(R) \/ (IsText(R) /\ R[2] = A[2] \o Render(B)))
   /\ (Op = "<" /\ Beyond(A) /\ IsNumV(B)) => R = FALSEV          \* text is above every number

\* text with digits which are not ASCII digits is other text to arithmetic
\* as well; & joins it unchanged, it is equal to itself and above every number
ForeignCase == (Op \in ArithOps \/ Unary) /\ Scalar(A) /\ (Unary \/ Scalar(B))
               /\ (ForeignDigits(A) \/ (~Unary /\ ForeignDigits(B)))
ForeignIsText ==
   /\ ForeignCase => /\ R \in {VALUE, U("any")}
                     /\ (Unary \/ IsNumber(ToNumS(A)) \/ ForeignDigits(A)) => R = VALUE
   /\ (Op = "&" /\ ForeignDigits(A) /\ Scalar(B)) =>
         (IsU(R) \/ (IsText(R) /\ R[2] = A[2] \o Render(B)))
   /\ (Op = "&" /\ Scalar(A) /\ ForeignDigits(B)) =>
         (IsU(R) \/ (IsText(R) /\ R[2] = Render(A) \o B[2]))
   /\ (Op = "=" /\ ForeignDigits(A)) => /\ Compare("=", A, A) = TRUEV
                                        /\ (A = B) = (R = TRUEV)
   /\ (Op = ">" /\ ForeignDigits(A) /\ IsNumV(B)) => R = TRUEV
   /\ (Op = "<" /\ ForeignDigits(A) /\ IsBool(B)) => R = TRUEV

\* arithmetic on two numbers is a number, #NUM! or #DIV/0!, never an infinity:
\* a product or quotient of two numbers whose magnitudes put it at 1E309 or
\* beyond is #NUM!, whichever side is the large one; / by a tiny number is *
\* by a huge one
BigCase == Op \in ArithOps /\ Scalar(A) /\ Scalar(B)
           /\ (IsText(A) \/ IsText(B))              \* (only text spells such numbers)
           /\ IsNumber(ToNumS(A)) /\ IsNumber(ToNumS(B))
           /\ (IsBig(ToNumS(A)) \/ IsBig(ToNumS(B)))
SureOverflow(x, y) == ~IsZeroNum(x) /\ ~IsZeroNum(y) /\ ExpOf(x)[1] + ExpOf(y)[1] >= 309
Overflow == BigCase =>
   LET x == ToNumS(A)  y == ToNumS(B) IN
   /\ R \in {NUM, DIV0, Zero, One, U("num"), U("any")}
   /\ (Op = "*" /\ SureOverflow(x, y)) => (R = NUM /\ ApplyS("*", B, A) = NUM)
   /\ (Op = "/" /\ IsBig(y) /\ SureOverflow(x, Big(y[2], -(y[3] + 1)))) => R = NUM
   /\ (Op = "^" /\ IsBig(x) /\ y = IntV(2) /\ SureOverflow(x, x)) => R = NUM

\* exactly one of <, =, > holds; <>, <=, >= are the complements; a < b iff b > a
\* (a comparison whose outcome the statement leaves open is not a logical)
\* (the six outcomes depend on (a, b) only: looked at once, when the cursor is on "<")
IsT(x) == x = TRUEV
Trichotomy == (Op = "<" /\ Scalar(A) /\ Scalar(B)) =>
   LET eq == Compare("=", A, B)   ne == Compare("<>", A, B)
       lt == Compare("<", A, B)   gt == Compare(">", A, B)
       le == Compare("<=", A, B)  ge == Compare(">=", A, B)
   IN
   /\ IsBool(eq) /\ IsBool(ne)
   /\ IsT(ne) = ~IsT(eq)
   /\ IsBool(lt) = IsBool(gt)
   /\ IsBool(lt) =>
        /\ IsBool(le) /\ IsBool(ge)
        /\ B2N(IsT(lt)) + B2N(IsT(eq)) + B2N(IsT(gt)) = 1
        /\ IsT(le) = ~IsT(gt)
        /\ IsT(ge) = ~IsT(lt)
        /\ IsT(lt) = IsT(Compare(">", B, A))
   /\ IsT(eq) = IsT(Compare("=", B, A))

T(op2, x, y) == Compare(op2, x, y) = TRUEV

\* the type order: any number < any text < any logical
TypeOrder == (Op = "<" /\ Scalar(A) /\ Scalar(B) /\ ~IsBlank(A) /\ ~IsBlank(B)
              /\ Rank(A) < Rank(B)) => T("<", A, B)

\* text compares without regard to case
CaseBlind == (Op = "=" /\ IsText(A) /\ IsText(B) /\ Lower(A[2]) = Lower(B[2])) => T("=", A, B)

\* & joins the renderings: blank is the empty text, logicals are TRUE/FALSE,
\* an integral number has no decimal point, and a rendered number reads
\* back as the same number
ConcatCase == Op = "&" /\ Scalar(A) /\ Scalar(B) /\ ~IsU(R)
ConcatRender == Op = "&" =>
   LET r == R  ra == Render(A) IN
   /\ ConcatCase =>
        /\ IsText(r) /\ r[2] = ra \o Render(B)
        /\ IsBlank(B) => r = Text(ra)
        /\ IsBlank(A) => r = Text(Render(B))
   /\ IsBool(A) => ra \in {TrueText, FalseText}
   /\ (IsNumV(A) /\ IsIntegral(A)) => \A p \in 1..Len(ra) : ra[p] # 46
   /\ (IsNumV(A) /\ ra # NoRender) => ParseNum(ra) = A

\* unary minus is subtraction from 0, percent is division by 100,
\* + and * commute (after error propagation, which is left-first)
Algebra ==
   /\ Op = "u-" => R = ApplyS("-", Zero, A)
   /\ Op = "%"  => R = ApplyS("/", A, IntV(100))
   /\ (Op \in {"+", "*"} /\ Scalar(A) /\ Scalar(B)) =>
        LET r == R IN (~IsU(r) /\ r # VALUE) => r = ApplyS(Op, B, A)

--------------------------------------------------------------------------
(* the law of triple mode: <= is transitive on non-blank operands (so the  *)
(* comparisons form one total preorder).  Blank has to be excluded: it is  *)
(* equal to 0, to "" and to FALSE, which are not equal to each other       *)
(* (MC_Operators states that as an ASSUME, so TLC confirms it).            *)
Le(x, y) == Cmp3(x, y) <= 0
TransitiveOn(x, y, z) == (Le(x, y) /\ Le(y, z)) => Le(x, z)
NonBlankScalar(v) == IsNumV(v) \/ IsText(v) \/ IsBool(v)
Transitive == (Triples /\ NonBlankScalar(A) /\ NonBlankScalar(B) /\ NonBlankScalar(C))
                 => TransitiveOn(A, B, C)

--------------------------------------------------------------------------
(* export: one JSON line per state.  ante = which law antecedents held     *)
(* here (the harness refuses a run in which a law was never exercised).    *)
ExportPair ==
  PrintT(ToJson([at |-> <<o, i, j, k>>, op |-> Op, a |-> A, b |-> IF Unary THEN <<>> ELSE B, r |-> R,
     dev |-> DevResult,
     ante |-> [errL |-> B2N(IsErr(A)),
               errR |-> B2N(~Unary /\ ~IsErr(A) /\ IsErr(B)),
               div0 |-> B2N(DivZeroCase),
               tri  |-> B2N(Op = "<" /\ Scalar(A) /\ Scalar(B) /\ IsBool(R)),
               cat  |-> B2N(ConcatCase),
               word |-> B2N(WordCase),
               far  |-> B2N(BeyondCase),
               frgn |-> B2N(ForeignCase),
               big  |-> B2N(BigCase),
               over |-> B2N(R = NUM /\ BigCase),
               coer |-> B2N(Op \in ArithOps /\ Scalar(A) /\ Scalar(B)
                            /\ (~IsNumV(A) \/ ~IsNumV(B)))]]))

\* triple mode: the nested application (a op b) op c for the six
\* comparison operators (the result of a comparison is again an operand)
CmpSeq == <<"=", "<>", "<", "<=", ">", ">=">>
ExportTriple ==
  PrintT(ToJson([at |-> <<o, i, j, k>>, a |-> A, b |-> B, c |-> C,
     nested |-> [q \in 1..6 |-> Compare(CmpSeq[q], Compare(CmpSeq[q], A, B), C)],
     dev    |-> IF A \in DOMAIN Dev \/ B \in DOMAIN Dev \/ C \in DOMAIN Dev
                THEN [q \in 1..6 |-> Compare(CmpSeq[q], Compare(CmpSeq[q], Dv(A), Dv(B)), Dv(C))]
                ELSE <<>>,
     \* a <= b, b <= c, a <= c under the deviant reading (<<>>: there is none)
     devle  |-> IF A \in DOMAIN Dev \/ B \in DOMAIN Dev \/ C \in DOMAIN Dev
                THEN <<Compare("<=", Dv(A), Dv(B)), Compare("<=", Dv(B), Dv(C)),
                       Compare("<=", Dv(A), Dv(C))>>
                ELSE <<>>,
     chain  |-> B2N(NonBlankScalar(A) /\ NonBlankScalar(B) /\ NonBlankScalar(C)
                    /\ Le(A, B) /\ Le(B, C))]))

Export == IF Triples THEN ExportTriple ELSE ExportPair
=============================================================================
