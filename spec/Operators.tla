----------------------------- MODULE Operators -----------------------------
(***************************************************************************)
(* C10 -- every operator is a total function on the scalar universe and    *)
(* follows Excel's coercion, error and ordering rules.                     *)
(*                                                                         *)
(* The definitions are in ExcelValues.  This module is the enumerator:     *)
(* the state is a cursor (operator, a, b[, c]) through Ops x Pool x Pool   *)
(* (Pool^3 when Triples), the laws named in the property are invariants    *)
(* over the definitions, and every visited state is exported as one test   *)
(* vector (operands and the defined result) for the real code.             *)
(***************************************************************************)
EXTENDS ExcelValues, Json

CONSTANTS Ops,       \* sequence of operator names; unary ones ("u-", "%") use a only
          Pool,      \* sequence of values (numbers, text, logicals, blank, errors)
          Triples    \* FALSE: walk pairs for every operator
                     \* TRUE : walk triples (the comparison order) once

VARIABLES o, i, j, k       \* indices into Ops, Pool, Pool, Pool
vars == <<o, i, j, k>>

N == Len(Pool)
Op == Ops[o]
A == Pool[i]
B == Pool[j]
C == Pool[k]
Unary == Op \in UnaryOps

\* Init chooses the operator and the left operand (and, for triples, the
\* middle one); the cursor then advances through the last operand.
Init == /\ o \in (IF Triples THEN {1} ELSE 1..Len(Ops))
        /\ i \in 1..N
        /\ j \in (IF Triples THEN 1..N ELSE {1})
        /\ k = 1

NextB == /\ ~Triples /\ ~Unary /\ j < N          \* next right operand
         /\ j' = j + 1 /\ UNCHANGED <<o, i, k>>
NextC == /\ Triples /\ k < N                     \* next third operand
         /\ k' = k + 1 /\ UNCHANGED <<o, i, j>>
Next == NextB \/ NextC
Spec == Init /\ [][Next]_vars

TypeOK == o \in 1..Len(Ops) /\ i \in 1..N /\ j \in 1..N /\ k \in 1..N

\* the defined result at the cursor
R == IF Unary THEN Apply1(Op, A) ELSE Apply(Op, A, B)

Scalar(v) == IsNumV(v) \/ IsText(v) \/ IsBool(v) \/ IsBlank(v)   \* not an error

--------------------------------------------------------------------------
(* the laws (pair mode) *)

\* a number, text, logical or error (or the explicit "not modelled" marker)
Total == IsResult(R)

\* an error operand is returned unchanged, the left one first
ErrLeftFirst == /\ IsErr(A) => R = A
                /\ (~Unary /\ ~IsErr(A) /\ IsErr(B)) => R = B

\* x / 0 = #DIV/0! whenever x is something arithmetic accepts
DivZero == (Op = "/" /\ IsNumV(ToNum(A)) /\ Scalar(B) /\ ToNum(B) = Zero) => R = DIV0

\* arithmetic: logicals, blanks and numeric text count as their numbers;
\* other text is #VALUE!
Coercion == (Op \in ArithOps /\ Scalar(A) /\ Scalar(B)) =>
   /\ (IsNumV(ToNum(A)) /\ IsNumV(ToNum(B))) => R = Apply(Op, ToNum(A), ToNum(B))
   /\ (ToNum(A) = VALUE \/ (IsNumV(ToNum(A)) /\ ToNum(B) = VALUE)) => R = VALUE

\* exactly one of <, =, > holds; <>, <=, >= are the complements; a < b iff b > a
T(op2, x, y) == Compare(op2, x, y) = TRUEV
Known(op2, x, y) == IsBool(Compare(op2, x, y))
Trichotomy == (Scalar(A) /\ Scalar(B)) =>
   /\ Known("=", A, B) /\ Known("<>", A, B)
   /\ T("<>", A, B) = ~T("=", A, B)
   /\ Known("<", A, B) = Known(">", A, B)
   /\ Known("<", A, B) =>
        /\ Known("<=", A, B) /\ Known(">=", A, B)
        /\ (IF T("<", A, B) THEN 1 ELSE 0) + (IF T("=", A, B) THEN 1 ELSE 0)
             + (IF T(">", A, B) THEN 1 ELSE 0) = 1
        /\ T("<=", A, B) = ~T(">", A, B)
        /\ T(">=", A, B) = ~T("<", A, B)
        /\ T("<", A, B) = T(">", B, A)
   /\ T("=", A, B) = T("=", B, A)

\* the type order: any number < any text < any logical
TypeOrder == (Scalar(A) /\ Scalar(B) /\ ~IsBlank(A) /\ ~IsBlank(B)
              /\ Rank(A) < Rank(B)) => T("<", A, B)

\* text compares without regard to case
CaseBlind == (IsText(A) /\ IsText(B) /\ Lower(A[2]) = Lower(B[2])) => T("=", A, B)

\* & joins the renderings: blank is the empty text, logicals are TRUE/FALSE,
\* an integral number has no decimal point, and a rendered number reads
\* back as the same number
ConcatRender ==
   /\ (Op = "&" /\ Scalar(A) /\ Scalar(B) /\ ~IsU(R)) =>
        /\ IsText(R) /\ R[2] = Render(A) \o Render(B)
        /\ IsBlank(B) => R = Text(Render(A))
        /\ IsBlank(A) => R = Text(Render(B))
   /\ IsBool(A) => Render(A) \in {TrueText, FalseText}
   /\ (IsNumV(A) /\ IsIntegral(A)) => \A p \in 1..Len(Render(A)) : Render(A)[p] # 46
   /\ (IsNumV(A) /\ Render(A) # NoRender) => ParseNum(Render(A)) = A

\* unary minus is subtraction from 0, percent is division by 100,
\* + and * commute (after error propagation, which is left-first)
Algebra ==
   /\ Op = "u-" => R = Apply("-", Zero, A)
   /\ Op = "%"  => R = Apply("/", A, IntV(100))
   /\ (Op \in {"+", "*"} /\ Scalar(A) /\ Scalar(B) /\ ~IsU(R) /\ R # VALUE)
        => R = Apply(Op, B, A)

--------------------------------------------------------------------------
(* the law of triple mode: <= is transitive on non-blank operands (so the  *)
(* comparisons form one total preorder).  Blank has to be excluded: it is  *)
(* equal to 0, to "" and to FALSE, which are not equal to each other       *)
(* (MC_Operators states that as an ASSUME, so TLC confirms it).            *)
Le(x, y) == Cmp3(x, y) <= 0
TransitiveOn(x, y, z) == (Le(x, y) /\ Le(y, z)) => Le(x, z)
NonBlankScalar(v) == IsNumV(v) \/ IsText(v) \/ IsBool(v)
Transitive == (Triples /\ NonBlankScalar(A) /\ NonBlankScalar(B) /\ NonBlankScalar(C))
                 => TransitiveOn(A, B, C)

--------------------------------------------------------------------------
(* export: one JSON line per state.  ante = which law antecedents held     *)
(* here (the harness refuses a run in which a law was never exercised).    *)
B2N(p) == IF p THEN 1 ELSE 0

ExportPair ==
  PrintT(ToJson([at |-> <<o, i, j, k>>, op |-> Op, a |-> A, b |-> IF Unary THEN <<>> ELSE B, r |-> R,
     ante |-> [errL |-> B2N(IsErr(A)),
               errR |-> B2N(~Unary /\ ~IsErr(A) /\ IsErr(B)),
               div0 |-> B2N(Op = "/" /\ IsNumV(ToNum(A)) /\ Scalar(B) /\ ToNum(B) = Zero),
               tri  |-> B2N(Scalar(A) /\ Scalar(B) /\ Known("<", A, B)),
               cat  |-> B2N(Op = "&" /\ Scalar(A) /\ Scalar(B) /\ ~IsU(R)),
               coer |-> B2N(Op \in ArithOps /\ Scalar(A) /\ Scalar(B)
                            /\ (~IsNumV(A) \/ ~IsNumV(B)))]]))

\* triple mode: the nested application (a op b) op c for the six
\* comparison operators (the result of a comparison is again an operand)
CmpSeq == <<"=", "<>", "<", "<=", ">", ">=">>
ExportTriple ==
  PrintT(ToJson([at |-> <<o, i, j, k>>, a |-> A, b |-> B, c |-> C,
     nested |-> [q \in 1..6 |-> Compare(CmpSeq[q], Compare(CmpSeq[q], A, B), C)],
     chain  |-> B2N(NonBlankScalar(A) /\ NonBlankScalar(B) /\ NonBlankScalar(C)
                    /\ Le(A, B) /\ Le(B, C))]))

Export == IF Triples THEN ExportTriple ELSE ExportPair
=============================================================================
