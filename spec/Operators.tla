----------------------------- MODULE Operators -----------------------------
(***************************************************************************)
(* C10 -- every operator is a total function on the scalar universe and    *)
(* follows Excel's coercion, error and ordering rules.                     *)
(*                                                                         *)
(* The definitions are in ExcelValues (and, for text that spells a         *)
(* logical, below).  This module is the enumerator:                        *)
(* the state is a cursor (operator, a, b[, c]) through Ops x Pool x Pool   *)
(* (Pool^3 when Triples), the laws named in the property are invariants    *)
(* over the definitions, and every visited state is exported as one test   *)
(* vector (operands and the defined result) for the real code.             *)
(***************************************************************************)
EXTENDS ExcelValues, Json

CONSTANTS Ops,       \* sequence of operator names; unary ones ("u-", "%") use a only
          Pool,      \* sequence of values (numbers, text, logicals, blank, errors)
          Triples,   \* FALSE: walk pairs for every operator
                     \* TRUE : walk triples (the comparison order) once
          Dev        \* [some values -> value]: a known deviation of the implementation,
                     \* given as another reading of some operands (see DevResult)

VARIABLES o, i, j, k,      \* indices into Ops, Pool, Pool, Pool
          res              \* the defined result at the cursor (a function of
                           \* o, i, j: kept in the state so that it is computed once)
vars == <<o, i, j, k, res>>

N == Len(Pool)
Op == Ops[o]
A == Pool[i]
B == Pool[j]
C == Pool[k]
Unary == Op \in UnaryOps

--------------------------------------------------------------------------
(* Text that spells a logical -- TRUE or FALSE in any mix of upper and     *)
(* lower case, spaces around it or not -- is text.  It is not a logical    *)
(* and it is not numeric text, so it is "other text" to arithmetic:        *)
(* ="TRUE"+1, ="false"*5 and =-"True" are #VALUE! in Excel; only the       *)
(* logical TRUE counts as 1.  (& and the comparisons take it as the text   *)
(* it is: "TRUE"&1 is "TRUE1", "TRUE" < TRUE.)  ExcelValues!ParseNum       *)
(* leaves these words open (U("any")); the operators of C10 decide them:   *)
(* ToNumS / ArithS / ApplyS are ToNum / Arith / Apply with that one        *)
(* refinement.                                                             *)
SpellsLogical(v) == /\ IsText(v)
                    /\ (LowerIs(Trim(v[2]), TrueWord) \/ LowerIs(Trim(v[2]), FalseWord))

\* number, #VALUE!, or U
ToNumS(v) == IF SpellsLogical(v) THEN VALUE ELSE ToNum(v)

\* + - * / ^ : an error operand first (the left one first), then the
\* coercion failures (the left one first), as in ExcelValues!Arith
ArithS(op, a, b) ==
  LET p == Propagate(a, b)
      x == IF IsU(a) THEN a ELSE ToNumS(a)
  IN  IF p # Go THEN p
      ELSE IF ~SpellsLogical(a) /\ ~SpellsLogical(b) THEN Arith(op, a, b)
      ELSE IF IsErr(x) THEN x                       \* a is the word, or fails itself
      ELSE IF IsU(x) /\ x[2] # "num" THEN U("any")  \* a might fail: which error is open
      ELSE VALUE                                    \* a is a number, b is the word

ApplyS(op, a, b) == IF op \in ArithOps THEN ArithS(op, a, b) ELSE Apply(op, a, b)
Apply1S(op, a) ==
  CASE op = "u-" -> IF IsErr(a) THEN a ELSE ArithS("-", Zero, a)
    [] op = "%"  -> IF IsErr(a) THEN a ELSE ArithS("/", a, IntV(100))
    [] op = "u+" -> a

\* the operator at the cursor applied by these definitions
Result(oo, ii, jj) == IF Ops[oo] \in UnaryOps THEN Apply1S(Ops[oo], Pool[ii])
                      ELSE ApplyS(Ops[oo], Pool[ii], Pool[jj])

(* A known deviation (finding C10_r3_2): pycel represents an error value by *)
(* the text of its code, so a text operand spelled like one is taken for   *)
(* the error value.  Dev maps such operands to what they are taken for.    *)
(* The defined result never depends on Dev; the deviant result is exported *)
(* next to it so that the harness attributes a discrepancy to the          *)
(* deviation exactly when the code returns the deviant result.  <<>>: the  *)
(* operands at the cursor have no deviant reading.                         *)
Dv(v) == IF v \in DOMAIN Dev THEN Dev[v] ELSE v
Apply2(op, a, b) == IF op \in UnaryOps THEN Apply1S(op, a) ELSE ApplyS(op, a, b)
DevResult == IF A \in DOMAIN Dev \/ (~Unary /\ B \in DOMAIN Dev)
             THEN Apply2(Op, Dv(A), Dv(B)) ELSE <<>>

\* Init chooses the operator and the left operand (and, for triples, the
\* middle one); the cursor then advances through the last operand.
Init == /\ o \in (IF Triples THEN {1} ELSE 1..Len(Ops))
        /\ i \in 1..N
        /\ j \in (IF Triples THEN 1..N ELSE {1})
        /\ k = 1
        /\ res = Result(o, i, j)

NextB == /\ ~Triples /\ ~Unary /\ j < N          \* next right operand
         /\ j' = j + 1 /\ res' = Result(o, i, j + 1)
         /\ UNCHANGED <<o, i, k>>
NextC == /\ Triples /\ k < N                     \* next third operand
         /\ k' = k + 1 /\ UNCHANGED <<o, i, j, res>>
Next == NextB \/ NextC
Spec == Init /\ [][Next]_vars

TypeOK == /\ o \in 1..Len(Ops) /\ i \in 1..N /\ j \in 1..N /\ k \in 1..N
          /\ res = Result(o, i, j)

R == res          \* the defined result at the cursor

B2N(p) == IF p THEN 1 ELSE 0

Scalar(v) == IsNumV(v) \/ IsText(v) \/ IsBool(v) \/ IsBlank(v)   \* not an error

--------------------------------------------------------------------------
(* the laws (pair mode) *)

\* a number, text, logical or error (or the explicit "not modelled" marker)
Total == IsResult(R)

\* an error operand is returned unchanged, the left one first
ErrLeftFirst == /\ IsErr(A) => R = A
                /\ (~Unary /\ ~IsErr(A) /\ IsErr(B)) => R = B

\* x / 0 = #DIV/0! whenever x is something arithmetic accepts
DivZeroCase == Op = "/" /\ Scalar(A) /\ Scalar(B) /\ IsNumV(ToNumS(A)) /\ ToNumS(B) = Zero
DivZero == DivZeroCase => R = DIV0

\* arithmetic: logicals, blanks and numeric text count as their numbers;
\* other text is #VALUE!
Coercion == (Op \in ArithOps /\ Scalar(A) /\ Scalar(B)) =>
   LET na == ToNumS(A)  nb == ToNumS(B)  r == R IN
   /\ (IsNumV(na) /\ IsNumV(nb)) => r = ApplyS(Op, na, nb)
   /\ (na = VALUE \/ (IsNumV(na) /\ nb = VALUE)) => r = VALUE

\* text that spells a logical is other text to arithmetic, whatever the
\* other operand is (error operands go first; an operand whose own reading
\* is open leaves open which error it is)
WordCase == (Op \in ArithOps \/ Unary) /\ Scalar(A) /\ (Unary \/ Scalar(B))
            /\ (SpellsLogical(A) \/ (~Unary /\ SpellsLogical(B)))
WordIsText == WordCase => /\ R \in {VALUE, U("any")}
                          /\ (Unary \/ IsNumV(ToNumS(A)) \/ SpellsLogical(A)) => R = VALUE

\* exactly one of <, =, > holds; <>, <=, >= are the complements; a < b iff b > a
\* (a comparison whose outcome the statement leaves open is not a logical)
\* (the six outcomes depend on (a, b) only: looked at once, when the cursor is on "<")
IsT(x) == x = TRUEV
Trichotomy == (Op = "<" /\ Scalar(A) /\ Scalar(B)) =>
   LET eq == Compare("=", A, B)   ne == Compare("<>", A, B)
       lt == Compare("<", A, B)   gt == Compare(">", A, B)
       le == Compare("<=", A, B)  ge == Compare(">=", A, B)
   IN
   /\ IsBool(eq) /\ IsBool(ne)
   /\ IsT(ne) = ~IsT(eq)
   /\ IsBool(lt) = IsBool(gt)
   /\ IsBool(lt) =>
        /\ IsBool(le) /\ IsBool(ge)
        /\ B2N(IsT(lt)) + B2N(IsT(eq)) + B2N(IsT(gt)) = 1
        /\ IsT(le) = ~IsT(gt)
        /\ IsT(ge) = ~IsT(lt)
        /\ IsT(lt) = IsT(Compare(">", B, A))
   /\ IsT(eq) = IsT(Compare("=", B, A))

T(op2, x, y) == Compare(op2, x, y) = TRUEV

\* the type order: any number < any text < any logical
TypeOrder == (Op = "<" /\ Scalar(A) /\ Scalar(B) /\ ~IsBlank(A) /\ ~IsBlank(B)
              /\ Rank(A) < Rank(B)) => T("<", A, B)

\* text compares without regard to case
CaseBlind == (Op = "=" /\ IsText(A) /\ IsText(B) /\ Lower(A[2]) = Lower(B[2])) => T("=", A, B)

\* & joins the renderings: blank is the empty text, logicals are TRUE/FALSE,
\* an integral number has no decimal point, and a rendered number reads
\* back as the same number
ConcatCase == Op = "&" /\ Scalar(A) /\ Scalar(B) /\ ~IsU(R)
ConcatRender == Op = "&" =>
   LET r == R  ra == Render(A) IN
   /\ ConcatCase =>
        /\ IsText(r) /\ r[2] = ra \o Render(B)
        /\ IsBlank(B) => r = Text(ra)
        /\ IsBlank(A) => r = Text(Render(B))
   /\ IsBool(A) => ra \in {TrueText, FalseText}
   /\ (IsNumV(A) /\ IsIntegral(A)) => \A p \in 1..Len(ra) : ra[p] # 46
   /\ (IsNumV(A) /\ ra # NoRender) => ParseNum(ra) = A

\* unary minus is subtraction from 0, percent is division by 100,
\* + and * commute (after error propagation, which is left-first)
Algebra ==
   /\ Op = "u-" => R = ApplyS("-", Zero, A)
   /\ Op = "%"  => R = ApplyS("/", A, IntV(100))
   /\ (Op \in {"+", "*"} /\ Scalar(A) /\ Scalar(B)) =>
        LET r == R IN (~IsU(r) /\ r # VALUE) => r = ApplyS(Op, B, A)

--------------------------------------------------------------------------
(* the law of triple mode: <= is transitive on non-blank operands (so the  *)
(* comparisons form one total preorder).  Blank has to be excluded: it is  *)
(* equal to 0, to "" and to FALSE, which are not equal to each other       *)
(* (MC_Operators states that as an ASSUME, so TLC confirms it).            *)
Le(x, y) == Cmp3(x, y) <= 0
TransitiveOn(x, y, z) == (Le(x, y) /\ Le(y, z)) => Le(x, z)
NonBlankScalar(v) == IsNumV(v) \/ IsText(v) \/ IsBool(v)
Transitive == (Triples /\ NonBlankScalar(A) /\ NonBlankScalar(B) /\ NonBlankScalar(C))
                 => TransitiveOn(A, B, C)

--------------------------------------------------------------------------
(* export: one JSON line per state.  ante = which law antecedents held     *)
(* here (the harness refuses a run in which a law was never exercised).    *)
ExportPair ==
  PrintT(ToJson([at |-> <<o, i, j, k>>, op |-> Op, a |-> A, b |-> IF Unary THEN <<>> ELSE B, r |-> R,
     dev |-> DevResult,
     ante |-> [errL |-> B2N(IsErr(A)),
               errR |-> B2N(~Unary /\ ~IsErr(A) /\ IsErr(B)),
               div0 |-> B2N(DivZeroCase),
               tri  |-> B2N(Op = "<" /\ Scalar(A) /\ Scalar(B) /\ IsBool(R)),
               cat  |-> B2N(ConcatCase),
               word |-> B2N(WordCase),
               coer |-> B2N(Op \in ArithOps /\ Scalar(A) /\ Scalar(B)
                            /\ (~IsNumV(A) \/ ~IsNumV(B)))]]))

\* triple mode: the nested application (a op b) op c for the six
\* comparison operators (the result of a comparison is again an operand)
CmpSeq == <<"=", "<>", "<", "<=", ">", ">=">>
ExportTriple ==
  PrintT(ToJson([at |-> <<o, i, j, k>>, a |-> A, b |-> B, c |-> C,
     nested |-> [q \in 1..6 |-> Compare(CmpSeq[q], Compare(CmpSeq[q], A, B), C)],
     dev    |-> IF A \in DOMAIN Dev \/ B \in DOMAIN Dev \/ C \in DOMAIN Dev
                THEN [q \in 1..6 |-> Compare(CmpSeq[q], Compare(CmpSeq[q], Dv(A), Dv(B)), Dv(C))]
                ELSE <<>>,
     \* a <= b, b <= c, a <= c under the deviant reading (<<>>: there is none)
     devle  |-> IF A \in DOMAIN Dev \/ B \in DOMAIN Dev \/ C \in DOMAIN Dev
                THEN <<Compare("<=", Dv(A), Dv(B)), Compare("<=", Dv(B), Dv(C)),
                       Compare("<=", Dv(A), Dv(C))>>
                ELSE <<>>,
     chain  |-> B2N(NonBlankScalar(A) /\ NonBlankScalar(B) /\ NonBlankScalar(C)
                    /\ Le(A, B) /\ Le(B, C))]))

Export == IF Triples THEN ExportTriple ELSE ExportPair
=============================================================================
