CONSTANTS
  Ops <- MCOps
  Pool <- MCPool
  Triples = FALSE
  Dev <- MCDev
SPECIFICATION Spec
INVARIANT TypeOK
INVARIANT Total
INVARIANT ErrLeftFirst
INVARIANT DivZero
INVARIANT Coercion
INVARIANT WordIsText
INVARIANT Trichotomy
INVARIANT TypeOrder
INVARIANT CaseBlind
INVARIANT ConcatRender
INVARIANT Algebra
INVARIANT Export
