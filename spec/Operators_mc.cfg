CONSTANTS
  Ops <- MCOps
  Pool <- MCPool
  Triples = FALSE
  Dev <- MCDev
SPECIFICATION Spec
INVARIANT TypeOK
INVARIANT Total
INVARIANT Closed
INVARIANT ErrLeftFirst
INVARIANT DivZero
INVARIANT Coercion
INVARIANT WordIsText
INVARIANT BeyondIsText
INVARIANT ForeignIsText
INVARIANT Overflow
INVARIANT Trichotomy
INVARIANT TypeOrder
INVARIANT CaseBlind
INVARIANT ConcatRender
INVARIANT Algebra
INVARIANT Export
