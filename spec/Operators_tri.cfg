CONSTANTS
  Ops <- MCCmpOnly
  Pool <- MCPool
  Triples = TRUE
  Dev <- MCDev
SPECIFICATION Spec
INVARIANT TypeOK
INVARIANT Transitive
INVARIANT Export
