CONSTANTS
  Ops <- MCCmpOnly
  Pool <- MCPool
  Triples = TRUE
SPECIFICATION Spec
INVARIANT TypeOK
INVARIANT Transitive
INVARIANT Export
