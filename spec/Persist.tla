------------------------------- MODULE Persist -------------------------------
(***************************************************************************)
(* C03 -- the save / load protocol of ExcelCompiler (to_file, from_file).  *)
(* Content of a saved model is abstracted to what _to_text writes: the     *)
(* constants of the saved input cells (the formulas' code never changes)   *)
(* and the metadata (cycles, filename, hash, extra_data -- one abstract    *)
(* value meta).  Files of one base name:                                   *)
(*   txt : the yaml/json file     pkl : the pickle file                    *)
(* each NoFile or the content it was written from (ex = the file exists).  *)
(*                                                                         *)
(* ToFile(kinds) as written in the code:                                   *)
(*   the text file is always (re)written; text_changed = its bytes differ  *)
(*   from what was on disk; the pickle is written only if requested and    *)
(*   (text_changed or the pickle file is missing); when only a pickle was  *)
(*   requested the text file is removed again.                             *)
(* FromFile(ext): with an extension that file; without, the first existing *)
(*   of pkl, yml/json.                                                     *)
(* Vals are abstract atoms: LoadedEquiv demands that the file gives back    *)
(* the content it was written from whatever the constants and the code are *)
(* made of -- numbers, text of any length (a text file writer may not       *)
(* re-flow it), text literals inside formulas, formulas calling functions   *)
(* of a plugin module (the pickle is made by reading the text file again,   *)
(* with the function table of the model being saved).  The concrete values  *)
(* are bound by the driver: the value pool, the long-text family and the    *)
(* plugin workbooks of harness/checks/c03.py.                               *)
(* SaveLoaded: the model a from_file returned is itself saved (under a     *)
(*   second base name: text file and pickle, both made from the text which *)
(*   _to_text writes from the loaded model).  `again` is the content of    *)
(*   those files.  ResaveReproduces: it is the content of the file the     *)
(*   model was read from -- every cell, every constant, the metadata --    *)
(*   so a model read from the second files equals the loaded one.  The     *)
(*   constants are atoms here; the driver binds them to numbers of every   *)
(*   class a text file writer treats differently: integers, decimals,      *)
(*   numbers whose shortest text is in exponent notation (abs >= 1e16 or   *)
(*   < 1e-4) with 1..17 significant digits, the smallest and the largest   *)
(*   floats, powers of two.                                                *)
(* DEV_StalePickle = TRUE is the rule above (the code).  With FALSE the    *)
(* pickle is rewritten whenever it does not hold the current content       *)
(* (the repaired rule) -- the named deviation behind known finding D9.     *)
(***************************************************************************)
EXTENDS Naturals, Sequences, FiniteSets, TLC, Json

CONSTANTS Inputs,          \* saved input cells
          Vals,            \* values set_value may write (abstract atoms)
          Init0,           \* [Inputs -> Vals]
          TextIsYml,       \* BOOLEAN: the text format is yaml (else json)
          DEV_StalePickle  \* BOOLEAN

VARIABLES live,     \* [Inputs -> Vals]   the model in memory
          meta,     \* metadata of the live model (extra_data version)
          txt, pkl, \* files: NoFile or [c |-> content, m |-> meta]
          loaded,   \* NoFile or the content a from_file returned
          again,    \* NoFile or the content of the files the loaded model was saved to
          lastop, hist
vars == <<live, meta, txt, pkl, loaded, again, lastop, hist>>
view == <<live, meta, txt, pkl, loaded, again, lastop>>

\* one shape for every file value (TLC cannot compare a record with a tuple)
NoFile == [ex |-> FALSE, c |-> Init0, m |-> 0]
Content == [ex |-> TRUE, c |-> live, m |-> meta]

Init == /\ live = Init0 /\ meta = 0
        /\ txt = NoFile /\ pkl = NoFile /\ loaded = NoFile /\ again = NoFile
        /\ lastop = <<"init">> /\ hist = <<>>

Log(e) == hist' = Append(hist, e)

SetValue(a, v) == /\ live[a] # v
                  /\ live' = [live EXCEPT ![a] = v]
                  /\ lastop' = <<"set">> /\ Log([op |-> "set_value", n |-> a, v |-> v])
                  /\ UNCHANGED <<meta, txt, pkl, loaded, again>>

SetMeta == /\ meta < 1 /\ meta' = meta + 1        \* user changes extra_data
           /\ lastop' = <<"set">> /\ Log([op |-> "set_meta"])
           /\ UNCHANGED <<live, txt, pkl, loaded, again>>

\* kinds is one of {"txt"}, {"pkl"}, {"txt", "pkl"}.  The text is always written
\* first, to <base>.<text ext>, or to <base>.yml when only a pickle is asked
\* for: with yaml as the text format that IS the user's text file, with json
\* it is a temporary file which never survives the call.
ToFile(kinds) ==
  LET tmpOnly == "txt" \notin kinds /\ ~TextIsYml
      changed == IF tmpOnly THEN TRUE ELSE txt # Content
      writePkl == "pkl" \in kinds /\
                  IF DEV_StalePickle THEN (changed \/ ~pkl.ex)
                  ELSE (pkl # Content)
  IN  /\ txt' = IF "txt" \in kinds THEN Content
                ELSE IF tmpOnly THEN txt
                ELSE IF writePkl THEN NoFile      \* text not requested: unlinked
                ELSE Content                      \* pickle reused: the text file stays
      /\ pkl' = IF writePkl THEN Content ELSE pkl
      /\ lastop' = <<"save", kinds>> /\ Log([op |-> "to_file", kinds |-> kinds])
      /\ UNCHANGED <<live, meta, loaded, again>>

FromFile(ext) ==
  LET src == IF ext = "pkl" THEN pkl
             ELSE IF ext = "txt" THEN txt
             ELSE IF pkl.ex THEN pkl ELSE txt                \* search order
  IN  /\ src.ex
      /\ loaded' = src
      /\ lastop' = <<"load", ext, IF ext = "auto" THEN (IF pkl.ex THEN "pkl" ELSE "txt") ELSE ext>>
      /\ Log([op |-> "from_file", ext |-> ext])
      /\ UNCHANGED <<live, meta, txt, pkl, again>>

\* the model which the last from_file returned is saved (text file and pickle
\* of a second base name); lastop keeps the kind of file it was read from
SaveLoaded ==
  /\ lastop[1] = "load"
  /\ again' = loaded
  /\ lastop' = <<"resave", lastop[2], lastop[3]>> /\ Log([op |-> "save_loaded"])
  /\ UNCHANGED <<live, meta, txt, pkl, loaded>>

Next == \/ \E a \in Inputs, v \in Vals : SetValue(a, v)
        \/ SetMeta
        \/ \E k \in {{"txt"}, {"pkl"}, {"txt", "pkl"}} : ToFile(k)
        \/ \E e \in {"txt", "pkl", "auto"} : FromFile(e)
        \/ SaveLoaded

Spec == Init /\ [][Next]_vars

(* ---- the property ---- *)
\* a file of kind k is "current" if a save that included k happened after the
\* last change of the live model; reading a current file gives the live model
RECURSIVE LastSaveIdx(_, _)
LastSaveIdx(k, i) == IF i = 0 THEN 0
                     ELSE IF hist[i].op = "to_file" /\ k \in hist[i].kinds THEN i
                     ELSE LastSaveIdx(k, i - 1)
RECURSIVE LastChangeIdx(_)
LastChangeIdx(i) == IF i = 0 THEN 0
                    ELSE IF hist[i].op \in {"set_value", "set_meta"} THEN i
                    ELSE LastChangeIdx(i - 1)
Current(k) == LastSaveIdx(k, Len(hist)) > LastChangeIdx(Len(hist))

LoadedEquiv ==
  lastop[1] = "load" /\ Current(lastop[3]) => loaded = Content

\* saving a loaded model reproduces the content of the file it was read from
\* (which no to_file of the live model has touched in between)
SourceFile(kind) == IF kind = "pkl" THEN pkl ELSE txt
ResaveReproduces ==
  lastop[1] = "resave" => again.ex /\ again = SourceFile(lastop[3])

\* saving an unchanged model again leaves the text file as it is
SaveIdempotent ==
  [][ (\E k \in {{"txt"}, {"txt", "pkl"}} : ToFile(k)) /\ txt = Content => txt' = txt ]_vars

Depth == Len(hist) <= 5

\* (TLC evaluates an invariant on the successors beyond CONSTRAINT Depth too:
\* they are not part of the export)
Export == Depth => PrintT(ToJson([hist |-> hist, txt |-> txt, pkl |-> pkl, loaded |-> loaded,
                         again |-> again, live |-> live, meta |-> meta, lastop |-> lastop]))
=============================================================================
