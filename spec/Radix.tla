------------------------------- MODULE Radix -------------------------------
(***************************************************************************)
(* C18 -- Excel's radix conversions on the 10-digit two's-complement       *)
(* range.  A number of base b is a sequence of 10 digits (most significant *)
(* first); its value is kept as <<neg, decimal digit sequence>> because    *)
(* 2^39 does not fit TLC's 32-bit integers.  The machine is an odometer:   *)
(* Succ adds one to the digit string, SuccAddsOne checks against an        *)
(* independent decimal increment that the two's-complement reading         *)
(* (Val) really is "the next integer", wrapping only at max -> min.        *)
(* Every visited state is exported as a test vector for the real code.     *)
(*                                                                         *)
(* "Anything outside the range": every value is also offered scaled by the *)
(* powers of ten 10^e, e \in Exps -- from just beyond the range of the base *)
(* up to and beyond the range of a double (numbers, and numeric text, that *)
(* only an infinity stands for).  InRange decides, by comparing decimal    *)
(* digit sequences, which of them are outside.                             *)
(***************************************************************************)
EXTENDS Naturals, Sequences, TLC, Json

CONSTANTS Bases,      \* subset of {2, 8, 16}
          Seeds,      \* [Bases -> set of 10-digit strings]
          Steps,      \* [Bases -> Nat] odometer steps from each seed
          Exps        \* set of decimal exponents e >= 1: magnitudes 10^e

VARIABLES b, s, k
vars == <<b, s, k>>

Width == 10

--------------------------------------------------------------------------
(* decimal arithmetic on digit sequences (most significant digit first) *)

RECURSIVE MA(_, _, _, _)
MA(acc, i, m, carry) ==
  IF i = 0
  THEN IF carry = 0 THEN <<>>
       ELSE IF carry < 10 THEN <<carry>>
       ELSE IF carry < 100 THEN <<carry \div 10, carry % 10>>
       ELSE <<carry \div 100, (carry \div 10) % 10, carry % 10>>
  ELSE LET t == acc[i] * m + carry
       IN  MA(acc, i - 1, m, t \div 10) \o <<t % 10>>

RECURSIVE Strip(_)
Strip(d) == IF Len(d) > 1 /\ d[1] = 0 THEN Strip(Tail(d)) ELSE d

MulAdd(acc, m, a) == Strip(MA(acc, Len(acc), m, a))
AddOne(acc) == MulAdd(acc, 1, 1)

RECURSIVE Horner(_, _, _, _)
Horner(base, digs, i, acc) ==
  IF i > Len(digs) THEN acc
  ELSE Horner(base, digs, i + 1, MulAdd(acc, base, digs[i]))

Unsigned(base, digs) == Horner(base, digs, 1, <<0>>)

--------------------------------------------------------------------------
(* two's complement reading of a 10-digit string *)

IsNeg(base, digs) == digs[1] >= base \div 2
Compl(base, digs) == [i \in 1..Len(digs) |-> base - 1 - digs[i]]

\* <<neg, magnitude>>; magnitude of a negative string = unsigned(~s) + 1
Val(base, digs) ==
  IF IsNeg(base, digs)
  THEN <<TRUE, AddOne(Unsigned(base, Compl(base, digs)))>>
  ELSE <<FALSE, Unsigned(base, digs)>>

\* Excel's rendering: negatives keep 10 digits, others lose leading zeros
Canon(base, digs) == IF IsNeg(base, digs) THEN digs ELSE Strip(digs)

RECURSIVE SuccAt(_, _, _)
SuccAt(base, digs, i) ==
  IF i = 0 THEN digs                          \* wrapped: all digits zero
  ELSE IF digs[i] = base - 1
       THEN SuccAt(base, [digs EXCEPT ![i] = 0], i - 1)
       ELSE [digs EXCEPT ![i] = digs[i] + 1]

Succ(base, digs) == SuccAt(base, digs, Len(digs))

MaxPos(base) == [i \in 1..Width |-> IF i = 1 THEN base \div 2 - 1 ELSE base - 1]
MinNeg(base) == [i \in 1..Width |-> IF i = 1 THEN base \div 2 ELSE 0]

--------------------------------------------------------------------------
(* the range of a base, and the numbers outside it at every magnitude *)

\* x < y for decimal digit sequences without leading zeros
RECURSIVE LexLess(_, _, _)
LexLess(x, y, i) == IF i > Len(x) THEN FALSE
                    ELSE IF x[i] # y[i] THEN x[i] < y[i]
                    ELSE LexLess(x, y, i + 1)
DecLess(x, y) == Len(x) < Len(y) \/ (Len(x) = Len(y) /\ LexLess(x, y, 1))

\* the bounds of the 10-digit range of a base: -512..511, -2^29..2^29-1,
\* -2^39..2^39-1 (Extremes: they are the values of MaxPos and MinNeg)
MaxMag(base) == CASE base = 2  -> <<5,1,1>>
                  [] base = 8  -> <<5,3,6,8,7,0,9,1,1>>
                  [] base = 16 -> <<5,4,9,7,5,5,8,1,3,8,8,7>>
MinMag(base) == CASE base = 2  -> <<5,1,2>>
                  [] base = 8  -> <<5,3,6,8,7,0,9,1,2>>
                  [] base = 16 -> <<5,4,9,7,5,5,8,1,3,8,8,8>>

\* v = <<neg, magnitude>> is a number of the 10-digit range of the base
InRange(base, v) == IF v[1] THEN ~DecLess(MinMag(base), v[2])
                            ELSE ~DecLess(MaxMag(base), v[2])

\* magnitude * 10^e, and the number of its digits
Scale(mag, e) == IF mag = <<0>> THEN mag ELSE mag \o [i \in 1..e |-> 0]
ScaledLen(mag, e) == IF mag = <<0>> THEN 1 ELSE Len(mag) + e

\* InRange of magnitude * 10^e, the zeros written out only when the number
\* of digits does not decide
ScaledInRange(base, v, e) ==
  LET bound == IF v[1] THEN MinMag(base) ELSE MaxMag(base)
      n     == ScaledLen(v[2], e)
  IN  n < Len(bound) \/ (n = Len(bound) /\ ~DecLess(bound, Scale(v[2], e)))

(* A number of 310 or more digits is at least 10^309, beyond the largest   *)
(* double (1.797..E308): as a double it is an infinity, as numeric text it *)
(* is text that no number stands for.  It is outside every range like any  *)
(* other number; DEC2x and x2DEC owe it an error value, not an exception.  *)
BeyondDouble(mag, e) == ScaledLen(mag, e) >= 310

\* x2DEC and x2y given a number read its decimal numeral as the digit
\* string; a numeral of more than 10 digits is outside ("up to 10 characters")
NumeralTooLong(digs, e) == ScaledLen(Strip(digs), e) > Width

(* places: 1..10 are in the quantifier.  A places beyond 2^63 - 1 >= 10^18 *)
(* (no text is that long) can only be answered by an error value; what     *)
(* 11 <= places < 10^19 gives is not judged.                               *)
PlacesFar == {e \in Exps : e >= 19}

--------------------------------------------------------------------------
(* regrouping of bits: a binary string sign-extended to 30 / 40 bits and   *)
(* cut into 3- or 4-bit groups is the same number in base 8 / 16           *)

BitsOf(n, w) == [i \in 1..w |-> (n \div (2 ^ (w - i))) % 2]
GroupVal(bits, from, w) ==
  LET RECURSIVE G(_, _)
      G(i, acc) == IF i = w THEN acc ELSE G(i + 1, acc * 2 + bits[from + i])
  IN  G(0, 0)

SignExtend(bits, total) ==
  [i \in 1..total |-> IF i <= total - Len(bits) THEN bits[1]
                      ELSE bits[i - (total - Len(bits))]]

Regroup(bits, g) ==       \* g = 3 (octal) or 4 (hex)
  LET ext == SignExtend(bits, Width * g)
  IN  [j \in 1..Width |-> GroupVal(ext, (j - 1) * g + 1, g)]

--------------------------------------------------------------------------
Init == /\ b \in Bases
        /\ s \in Seeds[b]
        /\ k = Steps[b]

Step == /\ k > 0
        /\ s' = Succ(b, s)
        /\ k' = k - 1
        /\ b' = b

Next == Step
Spec == Init /\ [][Next]_vars

TypeOK == /\ b \in Bases
          /\ s \in [1..Width -> 0..(b - 1)]
          /\ k \in 0..Steps[b]

\* the odometer and the two's-complement reading agree on "plus one"
SuccAddsOne ==
  [][ LET v == Val(b, s)  w == Val(b, s')
      IN  IF s = MaxPos(b)
          THEN /\ s' = MinNeg(b)
               /\ w[1] /\ w[2] = AddOne(v[2])          \* -(max+1)
          ELSE IF v[1]
          THEN IF w[1] THEN v[2] = AddOne(w[2])         \* -m -> -(m-1)
               ELSE v[2] = <<1>> /\ w[2] = <<0>>        \* -1 -> 0
          ELSE ~w[1] /\ w[2] = AddOne(v[2]) ]_vars

\* every state: regrouping a binary string gives the same value in base 8/16
RegroupAgrees ==
  b = 2 => /\ Val(8, Regroup(s, 3)) = Val(2, s)
           /\ Val(16, Regroup(s, 4)) = Val(2, s)

\* a non-negative string read without its leading zeros is the same number
CanonSame == ~IsNeg(b, s) =>
  Unsigned(b, Canon(b, s)) = Unsigned(b, s)

\* every value met is inside the range of its base; scaled by 10^e it
\* grows (zero stays zero) and has e more digits; once it has more digits
\* than the bounds of the base it is outside
EveryValueInRange == InRange(b, Val(b, s))
ScaledOutside ==
  LET v == Val(b, s) IN
  \A e \in Exps :
     LET sc == Scale(v[2], e) IN
     /\ e >= 1
     /\ Len(sc) = ScaledLen(v[2], e)
     /\ ScaledInRange(b, v, e) = InRange(b, <<v[1], sc>>)
     /\ v[2] # <<0>> =>
          /\ DecLess(v[2], sc)
          /\ Len(sc) > Len(MinMag(b)) => ~InRange(b, <<v[1], sc>>)
     /\ v[2] = <<0>> => InRange(b, <<v[1], sc>>)

\* extremes
Extremes ==
  /\ s = MaxPos(b) => Val(b, s) = <<FALSE, MaxMag(b)>>
  /\ s = MinNeg(b) => Val(b, s) = <<TRUE, MinMag(b)>>
  /\ MinMag(b) = AddOne(MaxMag(b))

\* test-vector export (an "invariant" that is always TRUE and prints)
Export ==
  PrintT(ToJson([base  |-> b,
                 digs  |-> s,
                 neg   |-> Val(b, s)[1],
                 mag   |-> Val(b, s)[2],
                 canon |-> Canon(b, s),
                 oct   |-> IF b = 2 THEN Canon(8, Regroup(s, 3)) ELSE <<>>,
                 hex   |-> IF b = 2 THEN Canon(16, Regroup(s, 4)) ELSE <<>>,
                 \* the exponents e for which value * 10^e is outside the range,
                 \* for which it is beyond the doubles, for which the canonical
                 \* digit string read as a decimal numeral, times 10^e, has more
                 \* than 10 digits, and for which 10^e is a places beyond any text
                 out   |-> {e \in Exps : ~ScaledInRange(b, Val(b, s), e)},
                 inf   |-> {e \in Exps : BeyondDouble(Val(b, s)[2], e)},
                 long  |-> {e \in Exps : NumeralTooLong(s, e)},
                 pfar  |-> PlacesFar,
                 exps  |-> Exps]))
=============================================================================
