------------------------------- MODULE Radix -------------------------------
(***************************************************************************)
(* C18 -- Excel's radix conversions on the 10-digit two's-complement       *)
(* range.  A number of base b is a sequence of 10 digits (most significant *)
(* first); its value is kept as <<neg, decimal digit sequence>> because    *)
(* 2^39 does not fit TLC's 32-bit integers.  The machine is an odometer:   *)
(* Succ adds one to the digit string, SuccAddsOne checks against an        *)
(* independent decimal increment that the two's-complement reading         *)
(* (Val) really is "the next integer", wrapping only at max -> min.        *)
(* Every visited state is exported as a test vector for the real code.     *)
(***************************************************************************)
EXTENDS Naturals, Sequences, TLC, Json

CONSTANTS Bases,      \* subset of {2, 8, 16}
          Seeds,      \* [Bases -> set of 10-digit strings]
          Steps       \* [Bases -> Nat] odometer steps from each seed

VARIABLES b, s, k
vars == <<b, s, k>>

Width == 10

--------------------------------------------------------------------------
(* decimal arithmetic on digit sequences (most significant digit first) *)

RECURSIVE MA(_, _, _, _)
MA(acc, i, m, carry) ==
  IF i = 0
  THEN IF carry = 0 THEN <<>>
       ELSE IF carry < 10 THEN <<carry>>
       ELSE IF carry < 100 THEN <<carry \div 10, carry % 10>>
       ELSE <<carry \div 100, (carry \div 10) % 10, carry % 10>>
  ELSE LET t == acc[i] * m + carry
       IN  MA(acc, i - 1, m, t \div 10) \o <<t % 10>>

RECURSIVE Strip(_)
Strip(d) == IF Len(d) > 1 /\ d[1] = 0 THEN Strip(Tail(d)) ELSE d

MulAdd(acc, m, a) == Strip(MA(acc, Len(acc), m, a))
AddOne(acc) == MulAdd(acc, 1, 1)

RECURSIVE Horner(_, _, _, _)
Horner(base, digs, i, acc) ==
  IF i > Len(digs) THEN acc
  ELSE Horner(base, digs, i + 1, MulAdd(acc, base, digs[i]))

Unsigned(base, digs) == Horner(base, digs, 1, <<0>>)

--------------------------------------------------------------------------
(* two's complement reading of a 10-digit string *)

IsNeg(base, digs) == digs[1] >= base \div 2
Compl(base, digs) == [i \in 1..Len(digs) |-> base - 1 - digs[i]]

\* <<neg, magnitude>>; magnitude of a negative string = unsigned(~s) + 1
Val(base, digs) ==
  IF IsNeg(base, digs)
  THEN <<TRUE, AddOne(Unsigned(base, Compl(base, digs)))>>
  ELSE <<FALSE, Unsigned(base, digs)>>

\* Excel's rendering: negatives keep 10 digits, others lose leading zeros
Canon(base, digs) == IF IsNeg(base, digs) THEN digs ELSE Strip(digs)

RECURSIVE SuccAt(_, _, _)
SuccAt(base, digs, i) ==
  IF i = 0 THEN digs                          \* wrapped: all digits zero
  ELSE IF digs[i] = base - 1
       THEN SuccAt(base, [digs EXCEPT ![i] = 0], i - 1)
       ELSE [digs EXCEPT ![i] = digs[i] + 1]

Succ(base, digs) == SuccAt(base, digs, Len(digs))

MaxPos(base) == [i \in 1..Width |-> IF i = 1 THEN base \div 2 - 1 ELSE base - 1]
MinNeg(base) == [i \in 1..Width |-> IF i = 1 THEN base \div 2 ELSE 0]

--------------------------------------------------------------------------
(* regrouping of bits: a binary string sign-extended to 30 / 40 bits and   *)
(* cut into 3- or 4-bit groups is the same number in base 8 / 16           *)

BitsOf(n, w) == [i \in 1..w |-> (n \div (2 ^ (w - i))) % 2]
GroupVal(bits, from, w) ==
  LET RECURSIVE G(_, _)
      G(i, acc) == IF i = w THEN acc ELSE G(i + 1, acc * 2 + bits[from + i])
  IN  G(0, 0)

SignExtend(bits, total) ==
  [i \in 1..total |-> IF i <= total - Len(bits) THEN bits[1]
                      ELSE bits[i - (total - Len(bits))]]

Regroup(bits, g) ==       \* g = 3 (octal) or 4 (hex)
  LET ext == SignExtend(bits, Width * g)
  IN  [j \in 1..Width |-> GroupVal(ext, (j - 1) * g + 1, g)]

--------------------------------------------------------------------------
Init == /\ b \in Bases
        /\ s \in Seeds[b]
        /\ k = Steps[b]

Step == /\ k > 0
        /\ s' = Succ(b, s)
        /\ k' = k - 1
        /\ b' = b

Next == Step
Spec == Init /\ [][Next]_vars

TypeOK == /\ b \in Bases
          /\ s \in [1..Width -> 0..(b - 1)]
          /\ k \in 0..Steps[b]

\* the odometer and the two's-complement reading agree on "plus one"
SuccAddsOne ==
  [][ LET v == Val(b, s)  w == Val(b, s')
      IN  IF s = MaxPos(b)
          THEN /\ s' = MinNeg(b)
               /\ w[1] /\ w[2] = AddOne(v[2])          \* -(max+1)
          ELSE IF v[1]
          THEN IF w[1] THEN v[2] = AddOne(w[2])         \* -m -> -(m-1)
               ELSE v[2] = <<1>> /\ w[2] = <<0>>        \* -1 -> 0
          ELSE ~w[1] /\ w[2] = AddOne(v[2]) ]_vars

\* every state: regrouping a binary string gives the same value in base 8/16
RegroupAgrees ==
  b = 2 => /\ Val(8, Regroup(s, 3)) = Val(2, s)
           /\ Val(16, Regroup(s, 4)) = Val(2, s)

\* a non-negative string read without its leading zeros is the same number
CanonSame == ~IsNeg(b, s) =>
  Unsigned(b, Canon(b, s)) = Unsigned(b, s)

\* extremes
Extremes ==
  /\ s = MaxPos(b) => Val(b, s) = <<FALSE,
        CASE b = 2 -> <<5,1,1>>
          [] b = 8 -> <<5,3,6,8,7,0,9,1,1>>
          [] b = 16 -> <<5,4,9,7,5,5,8,1,3,8,8,7>>>>
  /\ s = MinNeg(b) => Val(b, s) = <<TRUE,
        CASE b = 2 -> <<5,1,2>>
          [] b = 8 -> <<5,3,6,8,7,0,9,1,2>>
          [] b = 16 -> <<5,4,9,7,5,5,8,1,3,8,8,8>>>>

\* test-vector export (an "invariant" that is always TRUE and prints)
Export ==
  PrintT(ToJson([base  |-> b,
                 digs  |-> s,
                 neg   |-> Val(b, s)[1],
                 mag   |-> Val(b, s)[2],
                 canon |-> Canon(b, s),
                 oct   |-> IF b = 2 THEN Canon(8, Regroup(s, 3)) ELSE <<>>,
                 hex   |-> IF b = 2 THEN Canon(16, Regroup(s, 4)) ELSE <<>>]))
=============================================================================
