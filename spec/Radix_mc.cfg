CONSTANTS
  Bases <- MCBases
  Seeds <- MCSeeds
  Steps <- MCSteps
SPECIFICATION Spec
INVARIANT TypeOK
INVARIANT RegroupAgrees
INVARIANT CanonSame
INVARIANT Extremes
INVARIANT Export
PROPERTY SuccAddsOne
