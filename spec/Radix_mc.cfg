CONSTANTS
  Bases <- MCBases
  Seeds <- MCSeeds
  Steps <- MCSteps
  Exps <- MCExps
SPECIFICATION Spec
INVARIANT TypeOK
INVARIANT RegroupAgrees
INVARIANT CanonSame
INVARIANT Extremes
INVARIANT EveryValueInRange
INVARIANT ScaledOutside
INVARIANT Export
PROPERTY SuccAddsOne
