SPECIFICATION Spec
INVARIANT MarkDone
POSTCONDITION Accepted
CHECK_DEADLOCK FALSE
