------------------------------ MODULE ReadTrace ------------------------------
(***************************************************************************)
(* C04 as a trace specification.  Events recorded from the real code:      *)
(*   build(f, declared, graph)  when evaluation of node f begins: the      *)
(*                              addresses f declares (needed_addresses)    *)
(*                              and f's predecessors in the dependency     *)
(*                              graph at that moment                       *)
(*   read(f, a)                 the compiled code of f reads cell/range a  *)
(*                              (hook where _C_/_R_ are bound)             *)
(*   final(f, ancestors, influences)  after the call: the graph ancestors  *)
(*                              of the evaluated cell and the rectangles   *)
(*                              that can influence it (from RefForms)      *)
(* A read is ENABLED only if the address is covered by a declared          *)
(* precedent of the reader AND by one of its graph predecessors, where a   *)
(* range covers its cells and sub-rectangles; final is enabled only if     *)
(* every influencing rectangle is covered by an ancestor and every cell of *)
(* the model inside one is an ancestor itself.  A trace that               *)
(* cannot be consumed to its end is rejected.                              *)
(***************************************************************************)
EXTENDS Naturals, Sequences, TLC, TLCExt, Json, IOUtils

Traces == JsonDeserialize(IOEnv.TRACE_FILE)

VARIABLES tid, l, decl, gp
vars == <<tid, l, decl, gp>>

ToSet(s) == {s[i] : i \in 1..Len(s)}

Contains(q, r) == /\ q[1] = r[1]
                  /\ q[2] <= r[2] /\ r[4] <= q[4]
                  /\ q[3] <= r[3] /\ r[5] <= q[5]

Covered(S, a) == \E q \in S : Contains(q, a)

Init == /\ tid \in 1..Len(Traces)
        /\ TLCSet(tid, FALSE)
        /\ l = 1
        /\ decl = {}
        /\ gp = {}

Build(e) == /\ e.ev = "build"
            /\ decl' = {p \in decl : p[1] # e.f} \cup {<<e.f, q>> : q \in ToSet(e.declared)}
            /\ gp' = {p \in gp : p[1] # e.f} \cup {<<e.f, q>> : q \in ToSet(e.graph)}

Read(e) == /\ e.ev = "read"
           /\ Covered({p[2] : p \in {x \in decl : x[1] = e.f}}, e.a)
           /\ Covered({p[2] : p \in {x \in gp : x[1] = e.f}}, e.a)
           /\ UNCHANGED <<decl, gp>>

Final(e) == /\ e.ev = "final"
            /\ \A r \in ToSet(e.influences) : Covered(ToSet(e.ancestors), r)
            \* a cell of the model inside an influencing rectangle is an ancestor
            \* itself (being covered by a range node which lacks its edge is not enough)
            /\ \A c \in ToSet(e.infcells) : c \in ToSet(e.ancestors)
            /\ UNCHANGED <<decl, gp>>

Next == /\ l <= Len(Traces[tid])
        /\ LET e == Traces[tid][l] IN Build(e) \/ Read(e) \/ Final(e)
        /\ l' = l + 1
        /\ UNCHANGED tid

Spec == Init /\ [][Next]_vars

Done == l = Len(Traces[tid]) + 1
MarkDone == Done => TLCSet(tid, TRUE)

Accepted ==
  LET bad == {t \in 1..Len(Traces) : TLCGet(t) # TRUE}
  IN  IF bad = {} THEN TRUE
      ELSE /\ PrintT(ToJson([rejected |-> bad]))
           /\ FALSE
=============================================================================
