----------------------------- MODULE RefCompute -----------------------------
(***************************************************************************)
(* X02 -- functions that compute references: OFFSET and INDIRECT.          *)
(*                                                                         *)
(* A reference denotes a rectangle of cells  <<c1, r1, c2, r2>>  (columns   *)
(* c1..c2, rows r1..r2, c1 <= c2, r1 <= r2) on a sheet; a cell is the 1x1   *)
(* rectangle.  The sheet has MaxCol columns and MaxRow rows.  A computed    *)
(* reference is such a rectangle (or the error value #REF!), and any        *)
(* worksheet function applied to it gives what it gives for the same        *)
(* rectangle written out as an ordinary reference (Written below is that    *)
(* text).  This module defines                                              *)
(*   OffsetRect(x, a, b, h, w)   OFFSET(x, a, b [, h] [, w]): the rectangle *)
(*        of h rows and w columns whose top left cell lies a rows below and *)
(*        b columns right of the top left cell of x; an omitted height /    *)
(*        width is that of x; #REF! when any of its cells is not on the     *)
(*        sheet, and when the height or width is 0.  Negative heights and   *)
(*        widths are outside the domain (Excel documents "must be a         *)
(*        positive number").                                                *)
(*   Indirect(t)   INDIRECT(t) in the A1 style: the reading of a text (a    *)
(*        sequence of character codes) as a cell or a range, with or        *)
(*        without a sheet prefix (plain or between apostrophes), "$"        *)
(*        markers ignored, lower case accepted; text that is no reference   *)
(*        gives #REF! ("junk").  The result is <<kind, sheet, rectangle>>   *)
(*        with kind "ref", "junk", or "open" = a text whose reading this    *)
(*        module leaves open (whole rows / columns, corners in the wrong    *)
(*        order, leading zeros, more than one colon, sheet prefixes other   *)
(*        than the known ones: all of them may be references for Excel).    *)
(*   ROW / COLUMN / ROWS / COLUMNS of a rectangle.                          *)
(*                                                                         *)
(* Three enumerator machines share the variables (mode selects one):       *)
(*   "offset"    the arguments of OFFSET: the base rectangle grows from a   *)
(*               unit cell of a window by widening / heightening, the       *)
(*               offsets move by one row / column, height and width are     *)
(*               first omitted, then given and grown;                       *)
(*   "indirect"  a rectangle grown the same way, printed in every style     *)
(*               (absolute markers, case, sheet prefix) and read back;      *)
(*   "text"      arbitrary text built by appending one character of a       *)
(*               small alphabet, plus a list of special texts.              *)
(* The laws are invariants / an action property over the definitions;      *)
(* Export prints one JSON test vector per state.                            *)
(***************************************************************************)
EXTENDS Integers, Sequences, FiniteSets, TLC, Json

CONSTANTS
  MaxCol, MaxRow,        \* limits of the sheet
  Modes,                 \* subset of {"offset", "indirect", "text"}
  Windows,               \* set of <<columns, rows>> (intervals): where base rectangles live
  MaxBaseW, MaxBaseH,    \* largest base rectangle
  RowOffs, ColOffs,      \* intervals of integers around 0: the offsets
  Heights, Widths,       \* the heights / widths that are given (naturals; 0 is #REF!)
  BaseSheets,            \* sheet prefixes of the base of OFFSET (<<>> = none)
  Shifts,                \* translations <<dc, dr>> for the translation law
  Sheets,                \* the sheets of the workbook (names = character codes)
  Main,                  \* the sheet of the OFFSET formulas
  Homes,                 \* sheets on which the INDIRECT formula is placed
  TextSheets,            \* sheet prefixes of the printed texts (<<>> = none)
  AbsStyles,             \* subset of {"none", "all", "col", "row"}: where "$" is put
  Alphabet, MaxLen,      \* text machine
  SpecialTexts           \* set of <<text, kind>>: texts with the reading expected of them

VARIABLES mode, base, bsh, dr, dc, hh, ww, sty, home, txt
vars == <<mode, base, bsh, dr, dc, hh, ww, sty, home, txt>>

ASSUME /\ 0 \in RowOffs /\ 0 \in ColOffs
       /\ Heights \subseteq Nat /\ Widths \subseteq Nat

--------------------------------------------------------------------------
(* rectangles *)

RefErr == <<>>                         \* the error value #REF!
RH(x) == x[4] - x[2] + 1               \* ROWS
RW(x) == x[3] - x[1] + 1               \* COLUMNS
IsCell(x) == x[1] = x[3] /\ x[2] = x[4]
OnSheet(p) == p[1] \in 1..MaxCol /\ p[2] \in 1..MaxRow
RectOnSheet(x) == OnSheet(<<x[1], x[2]>>) /\ OnSheet(<<x[3], x[4]>>)
CellsOf(x) == { <<c, r>> : c \in x[1]..x[3], r \in x[2]..x[4] }
Translate(x, t) == <<x[1] + t[1], x[2] + t[2], x[3] + t[1], x[4] + t[2]>>

\* what ROW, COLUMN, ROWS, COLUMNS give for a reference: the first row, the
\* first column and the extent
FRow(x) == x[2]
FColumn(x) == x[1]
FRows(x) == RH(x)
FColumns(x) == RW(x)

--------------------------------------------------------------------------
(* OFFSET.  An optional argument is  Omitted  or  Given(n).                *)

Omitted == <<"omitted">>
Given(n) == <<"n", n>>
IsGiven(a) == a[1] = "n"

EffH(x, h) == IF IsGiven(h) THEN h[2] ELSE RH(x)
EffW(x, w) == IF IsGiven(w) THEN w[2] ELSE RW(x)

OffsetRect(x, a, b, h, w) ==
  LET eh == EffH(x, h)
      ew == EffW(x, w)
      c1 == x[1] + b
      r1 == x[2] + a
      c2 == c1 + ew - 1
      r2 == r1 + eh - 1
  IN  IF eh < 1 \/ ew < 1 THEN RefErr
      ELSE IF c1 < 1 \/ r1 < 1 \/ c2 > MaxCol \/ r2 > MaxRow THEN RefErr
      ELSE <<c1, r1, c2, r2>>

\* the same said cell by cell: the cells the result must consist of
TargetCells(x, a, b, h, w) ==
  { <<x[1] + b + j, x[2] + a + i>> : i \in 0..(EffH(x, h) - 1), j \in 0..(EffW(x, w) - 1) }

--------------------------------------------------------------------------
(* characters and numerals *)

APOS == 39     BANG == 33     DOLLAR == 36     COLON == 58

IsDigit(ch)  == ch \in 48..57
IsUpper(ch)  == ch \in 65..90
IsLower(ch)  == ch \in 97..122
IsLetter(ch) == IsUpper(ch) \/ IsLower(ch)
Upper(ch)    == IF IsLower(ch) THEN ch - 32 ELSE ch
Lower(ch)    == IF IsUpper(ch) THEN ch + 32 ELSE ch

\* column letters: bijective base 26 (A = 1 .. Z = 26, then AA), most
\* significant first
RECURSIVE ColLetters(_)
ColLetters(n) ==
  IF n = 0 THEN <<>>
  ELSE LET d == ((n - 1) % 26) + 1
       IN  ColLetters((n - d) \div 26) \o <<d>>

RECURSIVE ColNumFrom(_, _, _)
ColNumFrom(ds, i, acc) ==
  IF i > Len(ds) THEN acc ELSE ColNumFrom(ds, i + 1, acc * 26 + ds[i])
ColNumber(ds) == ColNumFrom(ds, 1, 0)

RECURSIVE Dec(_)
Dec(n) == IF n < 10 THEN <<48 + n>> ELSE Dec(n \div 10) \o <<48 + (n % 10)>>

RECURSIVE NumFrom(_, _, _)
NumFrom(s, i, acc) ==
  IF i > Len(s) THEN acc ELSE NumFrom(s, i + 1, acc * 10 + (s[i] - 48))
Num(s) == NumFrom(s, 1, 0)

--------------------------------------------------------------------------
(* the text of a reference *)

\* abs: "none" A1, "all" $A$1, "col" $A1, "row" A$1
CellText(c, r, abs, lower) ==
  LET ds == ColLetters(c)
      ls == [i \in 1..Len(ds) |-> (IF lower THEN 96 ELSE 64) + ds[i]]
  IN  (IF abs \in {"all", "col"} THEN <<DOLLAR>> ELSE <<>>) \o ls
      \o (IF abs \in {"all", "row"} THEN <<DOLLAR>> ELSE <<>>) \o Dec(r)

\* a 1x1 rectangle is written as a cell
RectText(x, abs, lower) ==
  IF IsCell(x) THEN CellText(x[1], x[2], abs, lower)
  ELSE CellText(x[1], x[2], abs, lower) \o <<COLON>> \o CellText(x[3], x[4], abs, lower)

\* the sheet names of this module are plain words: the apostrophes are optional
PrefixText(sh, quoted) ==
  IF sh = <<>> THEN <<>>
  ELSE (IF quoted THEN <<APOS>> \o sh \o <<APOS>> ELSE sh) \o <<BANG>>

PrintRef(sh, x, style) == PrefixText(sh, style[3]) \o RectText(x, style[1], style[2])

\* the ordinary reference a formula would hold for the rectangle
Written(sh, x) == PrefixText(sh, FALSE) \o RectText(x, "none", FALSE)

--------------------------------------------------------------------------
(* INDIRECT: reading a text *)

RECURSIVE SplitAt(_, _, _, _)
SplitAt(t, ch, i, cur) ==
  IF i > Len(t) THEN <<cur>>
  ELSE IF t[i] = ch THEN <<cur>> \o SplitAt(t, ch, i + 1, <<>>)
  ELSE SplitAt(t, ch, i + 1, Append(cur, t[i]))

\* number of letters p[from], p[from+1], ... in a row
LetterRun(p, from) ==
  Cardinality({ i \in from..Len(p) : \A j \in from..i : IsLetter(p[j]) })

Junk == <<"junk", 0, 0>>

\* one corner  [$]letters[$]digits .  <<kind, column, row>> with kind
\*   "cell"  a cell of the sheet
\*   "col" / "row"   letters only / digits only (half of A:B or 1:2; also
\*           letters with a "$" after them, which some readers take for A)
\*   "open"  a cell numeral with leading zeros
\*   "junk"  anything else, also a cell beyond the sheet limits and row 0
Corner(p) ==
  LET n  == Len(p)
      d1 == IF n >= 1 /\ p[1] = DOLLAR THEN 1 ELSE 0
      k  == LetterRun(p, d1 + 1)
      e  == d1 + k
      d2 == IF k > 0 /\ e < n /\ p[e + 1] = DOLLAR THEN 1 ELSE 0
      ds == SubSeq(p, e + d2 + 1, n)
      digits == ds # <<>> /\ \A i \in 1..Len(ds) : IsDigit(ds[i])
      col == ColNumber([i \in 1..k |-> Upper(p[d1 + i]) - 64])
  IN  IF k \in 1..3 /\ digits
      THEN IF Len(ds) > 1 /\ ds[1] = 48 THEN <<"open", 0, 0>>
           ELSE IF Len(ds) > 7 THEN Junk
           ELSE IF col > MaxCol \/ Num(ds) < 1 \/ Num(ds) > MaxRow THEN Junk
           ELSE <<"cell", col, Num(ds)>>
      ELSE IF k \in 1..3 /\ ds = <<>>
           THEN (IF col > MaxCol THEN Junk ELSE <<"col", col, 0>>)
      ELSE IF k = 0 /\ digits THEN <<"row", 0, 0>>
      ELSE Junk

RefR(sh, x) == <<"ref", sh, x>>
JunkR == <<"junk", <<>>, <<>>>>
OpenR == <<"open", <<>>, <<>>>>

\* the text after the sheet prefix: corner or corner:corner
Body(rest, sh) ==
  LET parts == SplitAt(rest, COLON, 1, <<>>)
      ks == [i \in 1..Len(parts) |-> Corner(parts[i])]
  IN  IF \E i \in 1..Len(parts) : ks[i][1] = "junk" THEN JunkR
      ELSE IF Len(parts) = 1
      THEN (IF ks[1][1] = "cell" THEN RefR(sh, <<ks[1][2], ks[1][3], ks[1][2], ks[1][3]>>)
            ELSE IF ks[1][1] = "open" THEN OpenR
            ELSE JunkR)                       \* letters or digits alone
      ELSE IF Len(parts) = 2 /\ ks[1][1] = "cell" /\ ks[2][1] = "cell"
      THEN (IF ks[1][2] <= ks[2][2] /\ ks[1][3] <= ks[2][3]
            THEN RefR(sh, <<ks[1][2], ks[1][3], ks[2][2], ks[2][3]>>)
            ELSE OpenR)                       \* corners not in order
      ELSE OpenR                              \* A:B, 1:2, A1:B, A1:B2:C3, leading zeros

HasMark(t) == \E i \in 1..Len(t) : t[i] \in {BANG, APOS}
StartsWith(t, p) == Len(t) >= Len(p) /\ SubSeq(t, 1, Len(p)) = p
KnownPrefixes == { <<sh, PrefixText(sh, q)>> : sh \in Sheets, q \in BOOLEAN }

Indirect(t) ==
  IF ~HasMark(t) THEN Body(t, <<>>)
  ELSE LET fit == { p \in KnownPrefixes : StartsWith(t, p[2]) }
       IN  IF fit = {} THEN OpenR
           ELSE LET p == CHOOSE q \in fit : TRUE
                    rest == SubSeq(t, Len(p[2]) + 1, Len(t))
                IN  IF HasMark(rest) THEN OpenR ELSE Body(rest, p[1])

UpperText(t) == [i \in 1..Len(t) |-> Upper(t[i])]
NoDollar(t) == SelectSeq(t, LAMBDA ch : ch # DOLLAR)

--------------------------------------------------------------------------
(* the machines *)

Z4 == <<0, 0, 0, 0>>
NoStyle == <<"none", FALSE, FALSE>>
RectModes == {"offset", "indirect"}

Units == UNION { { <<c, r, c, r>> : c \in win[1], r \in win[2] } : win \in Windows }
WinOf(x) == CHOOSE win \in Windows : x[1] \in win[1] /\ x[2] \in win[2]

Styles(sh) == { <<a, l, q>> : a \in AbsStyles, l \in BOOLEAN,
                             q \in IF sh = <<>> THEN {FALSE} ELSE BOOLEAN }

Init ==
  /\ mode \in Modes
  /\ base \in IF mode \in RectModes THEN Units ELSE {Z4}
  /\ bsh \in IF mode = "offset" THEN BaseSheets
             ELSE IF mode = "indirect" THEN TextSheets ELSE {<<>>}
  /\ dr = 0 /\ dc = 0
  /\ hh = Omitted /\ ww = Omitted
  /\ sty \in IF mode = "indirect" THEN Styles(bsh) ELSE {NoStyle}
  /\ home \in IF mode = "indirect" THEN Homes ELSE {Main}
  /\ txt \in IF mode = "text" THEN {<<>>} \cup { s[1] : s \in SpecialTexts } ELSE {<<>>}

WidenBase ==
  /\ mode \in RectModes /\ RW(base) < MaxBaseW /\ base[3] + 1 \in WinOf(base)[1]
  /\ base' = [base EXCEPT ![3] = base[3] + 1]
  /\ UNCHANGED <<mode, bsh, dr, dc, hh, ww, sty, home, txt>>

HeightenBase ==
  /\ mode \in RectModes /\ RH(base) < MaxBaseH /\ base[4] + 1 \in WinOf(base)[2]
  /\ base' = [base EXCEPT ![4] = base[4] + 1]
  /\ UNCHANGED <<mode, bsh, dr, dc, hh, ww, sty, home, txt>>

MoveRow ==
  /\ mode = "offset"
  /\ \E s \in {-1, 1} : dr + s \in RowOffs /\ dr' = dr + s
  /\ UNCHANGED <<mode, base, bsh, dc, hh, ww, sty, home, txt>>

MoveCol ==
  /\ mode = "offset"
  /\ \E s \in {-1, 1} : dc + s \in ColOffs /\ dc' = dc + s
  /\ UNCHANGED <<mode, base, bsh, dr, hh, ww, sty, home, txt>>

\* an optional argument: omitted -> the least value -> the next value
Least(S) == CHOOSE y \in S : \A z \in S : y <= z
Grow(a, S) ==
  IF ~IsGiven(a) THEN (IF S = {} THEN {} ELSE {Given(Least(S))})
  ELSE IF \E y \in S : y > a[2] THEN {Given(Least({y \in S : y > a[2]}))}
  ELSE {}

GrowHeight ==
  /\ mode = "offset" /\ hh' \in Grow(hh, Heights)
  /\ UNCHANGED <<mode, base, bsh, dr, dc, ww, sty, home, txt>>

GrowWidth ==
  /\ mode = "offset" /\ ww' \in Grow(ww, Widths)
  /\ UNCHANGED <<mode, base, bsh, dr, dc, hh, sty, home, txt>>

AppendChar ==
  /\ mode = "text" /\ Len(txt) < MaxLen
  /\ \E ch \in Alphabet : txt' = Append(txt, ch)
  /\ UNCHANGED <<mode, base, bsh, dr, dc, hh, ww, sty, home>>

Next == \/ WidenBase \/ HeightenBase \/ MoveRow \/ MoveCol
        \/ GrowHeight \/ GrowWidth \/ AppendChar

Spec == Init /\ [][Next]_vars

--------------------------------------------------------------------------
(* laws *)

Res == OffsetRect(base, dr, dc, hh, ww)
SizeArgs == {Omitted} \cup { Given(n) : n \in Heights \cup Widths }

TypeOK ==
  /\ mode \in Modes
  /\ mode \in RectModes =>
       /\ RectOnSheet(base) /\ base[1] <= base[3] /\ base[2] <= base[4]
       /\ RW(base) <= MaxBaseW /\ RH(base) <= MaxBaseH
  /\ dr \in RowOffs /\ dc \in ColOffs
  /\ hh \in SizeArgs /\ ww \in SizeArgs
  /\ mode = "text" => Len(txt) <= MaxLen \/ \E s \in SpecialTexts : s[1] = txt

\* OFFSET(x, 0, 0) = x, also with the height and width of x spelled out
OffsetIdentity ==
  mode = "offset" =>
    /\ OffsetRect(base, 0, 0, Omitted, Omitted) = base
    /\ OffsetRect(base, 0, 0, Given(RH(base)), Given(RW(base))) = base
    /\ OffsetRect(base, 0, 0, Given(RH(base)), Omitted) = base
    /\ OffsetRect(base, 0, 0, Omitted, Given(RW(base))) = base

\* the result is #REF! exactly when the height or width is 0 or one of the
\* requested cells is not on the sheet; otherwise it consists of exactly
\* the requested cells
OffsetCells ==
  mode = "offset" =>
    LET T == TargetCells(base, dr, dc, hh, ww)
    IN  IF T = {} \/ \E p \in T : ~OnSheet(p)
        THEN Res = RefErr
        ELSE Res # RefErr /\ RectOnSheet(Res) /\ CellsOf(Res) = T

\* the result has exactly the requested height and width; a 1x1 result is a
\* cell; ROW / COLUMN / ROWS / COLUMNS of the result are its origin / extent
OffsetShape ==
  (mode = "offset" /\ Res # RefErr) =>
    /\ FRows(Res) = EffH(base, hh) /\ FColumns(Res) = EffW(base, ww)
    /\ FRow(Res) = FRow(base) + dr /\ FColumn(Res) = FColumn(base) + dc
    /\ IsCell(Res) = (EffH(base, hh) = 1 /\ EffW(base, ww) = 1)
    /\ Cardinality(CellsOf(Res)) = FRows(Res) * FColumns(Res)
    /\ ~IsGiven(hh) => FRows(Res) = FRows(base)
    /\ ~IsGiven(ww) => FColumns(Res) = FColumns(base)

\* OFFSET(OFFSET(x, a, b, h, w), c, d) = OFFSET(x, a + c, b + d, h, w) when
\* both are defined (in either direction), and an outer height / width
\* replaces the inner one
OffsetCompose ==
  (mode = "offset" /\ Res # RefErr) =>
    \A c \in RowOffs, d \in ColOffs :
      LET e == OffsetRect(Res, c, d, Omitted, Omitted)
          f == OffsetRect(base, dr + c, dc + d, hh, ww)
      IN  /\ (e # RefErr \/ f # RefErr) => e = f
          /\ \A h2 \in Heights, w2 \in Widths :
               /\ OffsetRect(Res, c, d, Given(h2), Given(w2))
                    = OffsetRect(base, dr + c, dc + d, Given(h2), Given(w2))
               /\ OffsetRect(Res, c, d, Given(h2), Omitted)
                    = OffsetRect(base, dr + c, dc + d, Given(h2), ww)

\* one step of the machine is a composition with an offset of one
OffsetStep ==
  [][ (mode = "offset" /\ base' = base /\ hh' = hh /\ ww' = ww) =>
        LET m == OffsetRect(base, dr, dc, hh, ww)
            n == OffsetRect(base', dr', dc', hh', ww')
        IN  (m # RefErr /\ n # RefErr) =>
              n = OffsetRect(m, dr' - dr, dc' - dc, Omitted, Omitted) ]_vars

\* translation invariance: moving the base moves the result
OffsetTranslate ==
  mode = "offset" =>
    \A t \in Shifts :
      LET bt == Translate(base, t)
      IN  RectOnSheet(bt) =>
            LET rt == OffsetRect(bt, dr, dc, hh, ww)
            IN  /\ (Res # RefErr /\ RectOnSheet(Translate(Res, t))) => rt = Translate(Res, t)
                /\ (Res # RefErr /\ rt # RefErr) => rt = Translate(Res, t)
                /\ (EffH(base, hh) = 0 \/ EffW(base, ww) = 0) => rt = RefErr

\* INDIRECT(text of r) = r in every style of writing
IndirectRoundTrip ==
  mode = "indirect" => Indirect(PrintRef(bsh, base, sty)) = RefR(bsh, base)

\* the written reference of every defined result reads back as that result
WrittenRoundTrip ==
  /\ (mode = "offset" /\ Res # RefErr) => Indirect(Written(bsh, Res)) = RefR(bsh, Res)
  /\ mode \in RectModes => Indirect(Written(bsh, base)) = RefR(bsh, base)

\* every text has a reading; a reference is on the sheet and its written form
\* reads the same; case and "$" do not matter; the special texts read as listed
TextLaws ==
  mode = "text" =>
    LET r == Indirect(txt)
    IN  /\ r[1] \in {"ref", "junk", "open"}
        /\ r[1] = "ref" =>
             /\ RectOnSheet(r[3]) /\ r[3][1] <= r[3][3] /\ r[3][2] <= r[3][4]
             /\ Indirect(Written(r[2], r[3])) = r
             /\ Indirect(NoDollar(txt)) = r
        /\ ~HasMark(txt) => Indirect(UpperText(txt)) = r
        /\ \A s \in SpecialTexts : s[1] = txt => r[1] = s[2]

--------------------------------------------------------------------------
(* test vectors *)

JArg(a) == IF IsGiven(a) THEN <<a[2]>> ELSE <<>>      \* [] = omitted, [n] = given

ExportOffset ==
  [m |-> "offset", base |-> base, sheet |-> bsh, home |-> home,
   base_text |-> Written(bsh, base),
   rows |-> dr, cols |-> dc, h |-> JArg(hh), w |-> JArg(ww),
   rect |-> Res,                                        \* [] = #REF!
   written |-> IF Res = RefErr THEN <<>> ELSE Written(bsh, Res),
   row |-> IF Res = RefErr THEN 0 ELSE FRow(Res),
   column |-> IF Res = RefErr THEN 0 ELSE FColumn(Res),
   nrows |-> IF Res = RefErr THEN 0 ELSE FRows(Res),
   ncolumns |-> IF Res = RefErr THEN 0 ELSE FColumns(Res)]

ExportText(m, t) ==
  LET r == Indirect(t)
  IN  [m |-> m, text |-> t, home |-> home, kind |-> r[1], sheet |-> r[2], rect |-> r[3],
       written |-> IF r[1] = "ref" THEN Written(r[2], r[3]) ELSE <<>>,
       row |-> IF r[1] = "ref" THEN FRow(r[3]) ELSE 0,
       column |-> IF r[1] = "ref" THEN FColumn(r[3]) ELSE 0,
       nrows |-> IF r[1] = "ref" THEN FRows(r[3]) ELSE 0,
       ncolumns |-> IF r[1] = "ref" THEN FColumns(r[3]) ELSE 0]

Export ==
  CASE mode = "offset"   -> PrintT(ToJson(ExportOffset))
    [] mode = "indirect" -> PrintT(ToJson(ExportText("indirect", PrintRef(bsh, base, sty))))
    [] OTHER             -> PrintT(ToJson(ExportText("text", txt)))
=============================================================================
