CONSTANTS
  MaxCol <- XLMaxCol
  MaxRow <- XLMaxRow
  Modes <- AllModes
  Windows <- BGWindows
  MaxBaseW <- BGMaxBaseW
  MaxBaseH <- BGMaxBaseH
  RowOffs <- BGRowOffs
  ColOffs <- BGColOffs
  Heights <- BGHeights
  Widths <- BGWidths
  BaseSheets <- MCBaseSheets
  Shifts <- MCShifts
  Sheets <- MCSheets
  Main <- MCMain
  Homes <- MCHomes
  TextSheets <- BGTextSheets
  AbsStyles <- MCAbsStyles
  Alphabet <- BGAlphabet
  MaxLen <- BGMaxLen
  SpecialTexts <- MCSpecialTexts
SPECIFICATION Spec
INVARIANT TypeOK
INVARIANT OffsetIdentity
INVARIANT OffsetCells
INVARIANT OffsetShape
INVARIANT OffsetCompose
INVARIANT OffsetTranslate
INVARIANT IndirectRoundTrip
INVARIANT WrittenRoundTrip
INVARIANT TextLaws
INVARIANT Export
PROPERTY OffsetStep
