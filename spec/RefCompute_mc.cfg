CONSTANTS
  MaxCol <- XLMaxCol
  MaxRow <- XLMaxRow
  Modes <- AllModes
  Windows <- MCWindows
  MaxBaseW <- MCMaxBaseW
  MaxBaseH <- MCMaxBaseH
  RowOffs <- MCRowOffs
  ColOffs <- MCColOffs
  Heights <- MCHeights
  Widths <- MCWidths
  BaseSheets <- MCBaseSheets
  Shifts <- MCShifts
  Sheets <- MCSheets
  Main <- MCMain
  Homes <- MCHomes
  TextSheets <- MCTextSheets
  AbsStyles <- MCAbsStyles
  Alphabet <- MCAlphabet
  MaxLen <- MCMaxLen
  SpecialTexts <- MCSpecialTexts
SPECIFICATION Spec
INVARIANT TypeOK
INVARIANT OffsetIdentity
INVARIANT OffsetCells
INVARIANT OffsetShape
INVARIANT OffsetCompose
INVARIANT OffsetTranslate
INVARIANT IndirectRoundTrip
INVARIANT WrittenRoundTrip
INVARIANT TextLaws
INVARIANT Export
PROPERTY OffsetStep
