------------------------------ MODULE RefForms ------------------------------
(***************************************************************************)
(* C04 -- the written (non-computed) reference forms of Excel formulas,    *)
(* what a compiler must DECLARE as precedents for each of them and which   *)
(* cells can INFLUENCE the value.  A rectangle is <<sheet, c1, r1, c2, r2>>*)
(* (a cell has c1 = c2, r1 = r2; A:A is rows 1..MaxRow).                   *)
(*                                                                         *)
(* The machine enumerates formula descriptors (Init ranges over all of     *)
(* them; there is no behaviour beyond the choice).  TLC checks that the    *)
(* declaration rule stated here covers every influencing cell              *)
(* (DeclCovers), i.e. that the rule the implementation is compared with    *)
(* is itself sufficient; every descriptor is exported, rendered to Excel   *)
(* text by the harness, compiled and evaluated with the read hooks on, and *)
(* the recorded Build/Read trace is validated against ReadTrace.tla.       *)
(***************************************************************************)
EXTENDS Naturals, Sequences, FiniteSets, TLC, Json

CONSTANTS W, H,        \* data grid is columns 1..W, rows 1..H on every sheet
          Sheets,      \* sheet names; the formula lives on Home
          Home,
          Forms,       \* reference forms to enumerate
          UsedCols, UsedRows   \* used area of Home (bounds unbounded ranges)

MaxRow == 1048576
MaxCol == 16384

Rect(s, c1, r1, c2, r2) == <<s, c1, r1, c2, r2>>
Cell(s, c, r) == <<s, c, r, c, r>>
IsCell(q) == q[2] = q[4] /\ q[3] = q[5]

Rects(s) == {Rect(s, c1, r1, c2, r2) : c1 \in 1..W, r1 \in 1..H, c2 \in 1..W, r2 \in 1..H}
ProperRects(s) == {q \in Rects(s) : q[2] <= q[4] /\ q[3] <= q[5]}
Ranges(s) == {q \in ProperRects(s) : ~IsCell(q)}
Cells(s) == {q \in ProperRects(s) : IsCell(q)}

Contains(q, r) == /\ q[1] = r[1]
                  /\ q[2] <= r[2] /\ r[4] <= q[4]
                  /\ q[3] <= r[3] /\ r[5] <= q[5]

Max(a, b) == IF a >= b THEN a ELSE b
Min(a, b) == IF a <= b THEN a ELSE b

Overlap(q, r) == /\ q[1] = r[1]
                 /\ Max(q[2], r[2]) <= Min(q[4], r[4])
                 /\ Max(q[3], r[3]) <= Min(q[5], r[5])
Inter(q, r) == Rect(q[1], Max(q[2], r[2]), Max(q[3], r[3]), Min(q[4], r[4]), Min(q[5], r[5]))
Bound(q, r) == Rect(q[1], Min(q[2], r[2]), Min(q[3], r[3]), Max(q[4], r[4]), Max(q[5], r[5]))

(* ---- descriptors ------------------------------------------------------ *)
(* form   operands                         Excel text (harness)            *)
(* cell   x                                =x                              *)
(* range  x                                =SUM(x)                         *)
(* inter  x, y  (overlapping)              =SUM(x y)                       *)
(* union  x, y                             =SUM((x,y))                     *)
(* multi  x, y, z cells                    =SUM(x:y:z)                     *)
(* name1  x       defined name -> x        =SUM(NAME)                      *)
(* name2  x, y    name -> two areas        =SUM(NAME)                      *)
(* rowcol x                                =ROW(x)+COLUMN(x)               *)
(* index  x, i, j                          =INDEX(x, i, j)                 *)
(* ifref  x, y, z cells                    =IF(x>0, y, z)                  *)
(* ucol   c       unbounded column         =SUM(C:C)                       *)
(* urow   r       unbounded row            =SUM(2:2)                       *)
(* mix    x range on one sheet, y a cell on the OTHER sheet (any coordinate,   *)
(*        also one that lies inside x's rectangle)     =SUM(x)+y           *)
(* cse    x       {=x*2} entered over the formula's own range; a member    *)
(*                cell reads the array range, the array reads x            *)
(* qual: how the sheet is written: "none" (Home only), "plain", "quoted"   *)
(* abs : $ signs                                                           *)

Quals(s) == IF s = Home THEN {"none", "plain", "quoted"} ELSE {"plain", "quoted"}

D(form, s, x, y, z, i, j, qual, abs) ==
  [form |-> form, sheet |-> s, x |-> x, y |-> y, z |-> z, i |-> i, j |-> j,
   qual |-> qual, abs |-> abs]

NoR == <<"", 0, 0, 0, 0>>

Descs(form) ==
  CASE form = "cell" ->
         {D(form, s, x, NoR, NoR, 0, 0, q, a) :
            s \in Sheets, x \in Cells(Home), q \in {"none", "plain", "quoted"}, a \in BOOLEAN}
    [] form = "range" ->
         {D(form, s, x, NoR, NoR, 0, 0, q, a) :
            s \in Sheets, x \in Ranges(Home), q \in {"none", "plain", "quoted"}, a \in BOOLEAN}
    [] form = "inter" ->
         {D(form, Home, x, y, NoR, 0, 0, "none", FALSE) :
            x \in Ranges(Home), y \in Ranges(Home)}
    [] form = "union" ->
         {D(form, Home, x, y, NoR, 0, 0, "none", FALSE) :
            x \in Ranges(Home), y \in ProperRects(Home)}
    [] form = "multi" ->
         {D(form, Home, x, y, z, 0, 0, "none", FALSE) :
            x \in Cells(Home), y \in Cells(Home), z \in Cells(Home)}
    [] form = "name1" ->
         {D(form, s, x, NoR, NoR, 0, 0, "none", FALSE) : s \in Sheets, x \in ProperRects(Home)}
    [] form = "name2" ->
         {D(form, Home, x, y, NoR, 0, 0, "none", FALSE) :
            x \in Ranges(Home), y \in Ranges(Home)}
    [] form = "rowcol" ->
         {D(form, Home, x, NoR, NoR, 0, 0, "none", a) : x \in ProperRects(Home), a \in BOOLEAN}
    [] form = "index" ->
         {D(form, s, x, NoR, NoR, i, j, "none", FALSE) :
            s \in Sheets, x \in Ranges(Home), i \in 1..H, j \in 1..W}
    [] form = "ifref" ->
         {D(form, Home, x, y, z, 0, 0, "none", FALSE) :
            x \in Cells(Home), y \in Cells(Home), z \in Cells(Home)}
    [] form = "ucol" ->
         {D(form, s, Rect(Home, c, 1, c, MaxRow), NoR, NoR, 0, 0, q, a) :
            s \in Sheets, c \in 1..W, q \in {"none", "plain"}, a \in BOOLEAN}
    [] form = "urow" ->
         {D(form, s, Rect(Home, 1, r, MaxCol, r), NoR, NoR, 0, 0, q, a) :
            s \in Sheets, r \in 1..H, q \in {"none", "plain"}, a \in BOOLEAN}
    [] form = "cse" ->
         {D(form, Home, x, NoR, NoR, 0, 0, "none", FALSE) : x \in Ranges(Home)}
    [] form = "mix" ->
         {D(form, s, x, y, NoR, 0, 0, "plain", FALSE) :
            s \in Sheets, x \in Ranges(Home), y \in Cells(Home)}

\* descriptors whose qualifier is impossible for the sheet are dropped;
\* operands are written on Home in Descs and moved to the target sheet here
OnSheet(q, s) == IF q = NoR THEN NoR ELSE <<s, q[2], q[3], q[4], q[5]>>
WellFormed(d) ==
  /\ d.qual \in Quals(d.sheet)
  /\ d.form = "inter" => Overlap(d.x, d.y)
  /\ d.form = "index" => d.i <= d.x[5] - d.x[3] + 1 /\ d.j <= d.x[4] - d.x[2] + 1
  /\ d.form = "name2" => ~Overlap(d.x, d.y)

OtherSheet(s) == CHOOSE t \in Sheets : t # s
Place(d) == [d EXCEPT !.x = OnSheet(d.x, d.sheet),
                      !.y = OnSheet(d.y, IF d.form = "mix" THEN OtherSheet(d.sheet) ELSE d.sheet),
                      !.z = OnSheet(d.z, d.sheet)]

All == {Place(d) : d \in {e \in UNION {Descs(f) : f \in Forms} : WellFormed(e)}}

(* ---- what must be declared, what can influence ----------------------- *)
\* the used area bounds an unbounded range
Clip(q) == Rect(q[1], q[2], q[3], Min(q[4], UsedCols), Min(q[5], UsedRows))

Declared(d) ==
  CASE d.form \in {"cell", "range", "name1", "rowcol", "index", "cse"} -> {d.x}
    [] d.form \in {"inter", "union", "name2", "mix"} -> {d.x, d.y}
    [] d.form = "multi" -> {Bound(Bound(d.x, d.y), d.z)}
    [] d.form = "ifref" -> {d.x, d.y, d.z}
    [] d.form \in {"ucol", "urow"} -> {d.x}

\* rectangles whose cells can influence the value
Influences(d) ==
  CASE d.form \in {"cell", "range", "name1", "cse"} -> {d.x}
    [] d.form = "inter" -> {Inter(d.x, d.y)}
    [] d.form \in {"union", "name2", "mix"} -> {d.x, d.y}
    [] d.form = "multi" -> {Bound(Bound(d.x, d.y), d.z)}
    [] d.form = "rowcol" -> {}
    [] d.form = "index" -> {Cell(d.x[1], d.x[2] + d.j - 1, d.x[3] + d.i - 1)}
    [] d.form = "ifref" -> {d.x, d.y, d.z}
    [] d.form \in {"ucol", "urow"} -> {Clip(d.x)}

VARIABLE d
Init == d \in All
Next == UNCHANGED d
Spec == Init /\ [][Next]_d

DeclCovers == \A r \in Influences(d) : \E q \in Declared(d) : Contains(q, r)
InterInside == d.form = "inter" =>
                 Contains(d.x, Inter(d.x, d.y)) /\ Contains(d.y, Inter(d.x, d.y))
BoundOutside == d.form = "multi" =>
                 \A q \in {d.x, d.y, d.z} : Contains(Bound(Bound(d.x, d.y), d.z), q)

Export == PrintT(ToJson([d |-> d, declared |-> Declared(d), influences |-> Influences(d)]))
=============================================================================
