CONSTANTS
  W = 3
  H = 3
  Sheets <- MCSheets
  Home = "S"
  Forms <- MCFormsAll
  UsedCols = 8
  UsedRows = 8
SPECIFICATION Spec
INVARIANT DeclCovers
INVARIANT InterInside
INVARIANT BoundOutside
INVARIANT Export
