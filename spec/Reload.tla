------------------------------- MODULE Reload -------------------------------
(***************************************************************************)
(* C03 / C01 -- to_file followed by from_file at ANY point of a history,    *)
(* composed with the Engine model: what a model loaded from a file is, in   *)
(* terms of the engine's own state.                                         *)
(*                                                                          *)
(* to_file writes the cells of the cell map: constants for input cells,     *)
(* code for formula cells, for the cells standing for unbounded ranges and  *)
(* for CSE ranges; plain ranges are not written.  from_file makes a cell    *)
(* for every entry, rebuilds the plain ranges their formulas need (from the *)
(* loaded cells), connects the graph and evaluates every range, as          *)
(* _process_gen_graph always does.  So the loaded model has the same cell   *)
(* map, complete edges, no computed formula except what the ranges needed,  *)
(* and does not remember that values were changed.                          *)
(* A cell that was never compiled before the save is not in the file: the   *)
(* loaded model cannot know it (it would read as an empty cell), so after   *)
(* Reload only saved cells are evaluated ("every saved cell", C03).         *)
(*                                                                          *)
(* The function table.  Engine's Def gives every formula its meaning; the   *)
(* code gets it from the built-in library plus the plugin modules named     *)
(* when the model is compiled (ExcelCompiler(.., plugins)) and when it is   *)
(* loaded (from_file(.., plugins)).  Reload uses the SAME Def before, during*)
(* and after the trip: Fill below computes formulas (the members of the     *)
(* rebuilt ranges) while the file is being read, and every later Evaluate   *)
(* computes with it.  So a model whose formulas call a plugin function is   *)
(* an instance of this module like any other, provided the loader has the   *)
(* plugin modules from its first computation on -- and to_file(pkl), which  *)
(* builds the pickle by reading the text it has just written, has those of  *)
(* the model being saved.  The driver binds this with workbooks whose       *)
(* formulas are wrapped in the plugin function VID(x) = x (same Def).       *)
(***************************************************************************)
EXTENDS Engine

VARIABLES reloaded
rvars == <<vars, reloaded>>
rview == <<view, reloaded>>

RInit == Init /\ reloaded = FALSE

REvaluate(n) == /\ reloaded => n \in built
                /\ Evaluate(n)
                /\ UNCHANGED reloaded

RSetValue(a, v) == SetValue(a, v) /\ UNCHANGED reloaded

\* plain ranges are not written; the loaded model rebuilds the ones a saved
\* formula, unbounded-range cell or CSE range refers to
PlainRanges == {r \in Ranges : Def[r].kind = "Range"}
Kept == {x \in built : x \notin PlainRanges \/
                       \E d \in built \ PlainRanges : x \in PrecMap[d]}

Reload ==
  /\ built # {}
  /\ built' = Kept
  /\ LET c0 == [x \in Nodes |-> IF x \in Kept \cap Inputs THEN inp[x] ELSE NoneV]
     IN  cache' = Fill(c0, Kept \cap (Ranges \cup Aliases))
  /\ edges' = NewEdges(Kept)
  /\ changed' = FALSE
  /\ reloaded' = TRUE
  /\ ret' = NoneV
  /\ act' = [op |-> "reload"]
  /\ UNCHANGED inp

RNext == \/ \E n \in Nodes : REvaluate(n)
         \/ \E a \in Settable, v \in Pool : RSetValue(a, v)
         \/ Reload

RSpec == RInit /\ [][RNext]_rvars

\* the loaded model is a model like any other: the same invariants
CoherentR == Coherent
RetOKR == RetOK
MirrorR == \A a \in built \cap Inputs : cache[a] = inp[a]
\* nothing is lost or invented by the round trip
SameCells == [][act'.op = "reload" =>
                 /\ inp' = inp
                 /\ built' \subseteq built /\ built \ built' \subseteq PlainRanges]_rvars

RStateJson(i, b, c, e, ch, rl) ==
  [inp |-> i, built |-> b, cache |-> [x \in b |-> c[x]], edges |-> e, changed |-> ch,
   reloaded |-> rl]
RPrintInit == act.op = "init" =>
  PrintT(ToJson([init |-> RStateJson(inp, built, cache, edges, changed, reloaded)]))
RPrintEdge ==
  PrintT(ToJson([from |-> RStateJson(inp, built, cache, edges, changed, reloaded),
                 act  |-> act', ret |-> ret',
                 to   |-> RStateJson(inp', built', cache', edges', changed', reloaded')]))
=============================================================================
