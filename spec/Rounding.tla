------------------------------ MODULE Rounding ------------------------------
(***************************************************************************)
(* C19 -- Excel's rounding family on exact decimals.                       *)
(*                                                                         *)
(* A number is x = k / 10^j, kept as the integer pair (k, j) with          *)
(* |k| <= Kmax = 10^6 and j in 0..6.  TLC has 32-bit integers and no       *)
(* fractions, so every definition below is integer div/mod on k:           *)
(*                                                                         *)
(*   phase "R"  ROUND / ROUNDUP / ROUNDDOWN / TRUNC (x, d), d in -6..6,    *)
(*              and the one-argument INT, EVEN, ODD of the same x.         *)
(*              The multiples of 10^-d are, in k-space, the multiples of   *)
(*              the unit u = 10^(j-d).  j-d <= 0: every x is a multiple.   *)
(*              j-d >= 10: u does not fit 32 bits but then |k| < u/2, the  *)
(*              quotient is 0 -- handled by case analysis.                 *)
(*   phase "M"  MOD(n, m) with n = k/10^j, m = p/10^j (same scale), so     *)
(*              MOD is integer floor-mod of k by p, scaled back; INT(n/m)  *)
(*              and MOD(n, m) are also given as a pair (ModPairs), bound   *)
(*              by the identity n = m*INT(n/m) + MOD(n, m).                *)
(*   phase "C"  CEILING / FLOOR and their .MATH / .PRECISE variants with   *)
(*              a binary-exact significance p/4 (p in quarter units).      *)
(*                                                                         *)
(* A result is the decimal pair <<m, e>> = m * 10^e (R phase), an integer  *)
(* numerator at scale 10^j (M phase) or a number of quarters (C phase).    *)
(*                                                                         *)
(* The enumerator machine keeps (ph, j, p) fixed and moves k along the     *)
(* inductive structure of the domain: consecutive small k, a strided grid, *)
(* the exact multiples of the unit, the exact ties (k = u/2 mod u), their  *)
(* +-1 neighbours (near-ties, near-multiples), the top of the range, and   *)
(* the mirror image -k.  Every visited state is exported as one vector.    *)
(***************************************************************************)
EXTENDS Integers, Sequences, TLC, Json

CONSTANTS
  Phases,       \* subset of {"R", "M", "C"}
  Js,           \* scales j (x = k / 10^j)
  Ds,           \* digits d of the R phase
  Divisors,     \* [Js -> set of non-zero integers]: MOD divisor numerators p (m = p/10^j)
  Sigs,         \* significances of the C phase in units of 1/SigDen (non-zero)
  SigDen,       \* 4: quarters (binary-exact significances), 20: twentieths (0.05, 0.1, 0.3 ...)
  Kmax,         \* bound on |k|
  SmallMax,     \* k = 0..SmallMax are all visited
  GridStride,   \* grid: k = off + i*GridStride
  GridOffsets,  \* set of offsets in 0..GridStride-1
  Run, Jump     \* [phase -> Nat]: multiples / ties number i*unit are visited
                \* when i % Jump[ph] < Run[ph]

VARIABLES ph, k, j, p
vars == <<ph, k, j, p>>

Abs(n) == IF n < 0 THEN -n ELSE n
Sgn(n) == IF n < 0 THEN -1 ELSE IF n = 0 THEN 0 ELSE 1

\* 10^n for the exponents that fit a 32-bit integer
Pow10(n) == CASE n \in 0..9 -> 10 ^ n

--------------------------------------------------------------------------
(* quotients of a magnitude a >= 0 by a unit u > 0 *)

QDown(a, u) == a \div u                                          \* toward zero
QUp(a, u)   == IF a % u = 0 THEN a \div u ELSE a \div u + 1      \* away from zero
QHalf(a, u) == IF 2 * (a % u) >= u THEN a \div u + 1 ELSE a \div u
                                                   \* nearest, ties away from zero
Q(mode, a, u) == CASE mode = "down" -> QDown(a, u)
                   [] mode = "up"   -> QUp(a, u)
                   [] mode = "half" -> QHalf(a, u)

\* floor(a / b) for b > 0 and for any non-zero b (written on magnitudes so
\* that nothing depends on how TLC rounds a negative \div)
FloorPos(a, b) == IF a >= 0 THEN a \div b ELSE -((-a + b - 1) \div b)
FloorDiv(a, b) == IF b > 0 THEN FloorPos(a, b) ELSE FloorPos(-a, -b)

--------------------------------------------------------------------------
(* ROUND, ROUNDUP, ROUNDDOWN (= TRUNC): x = kk/10^jj to d digits.          *)
(* The sign is carried separately: all three are odd functions, "up" and   *)
(* "down" are meant in magnitude, a tie goes away from zero.               *)

RoundGen(mode, kk, jj, d) ==
  LET e == jj - d IN
  IF e <= 0 THEN <<kk, -jj>>              \* x already is a multiple of 10^-d
  ELSE IF e <= 9
  THEN <<Sgn(kk) * Q(mode, Abs(kk), Pow10(e)), -d>>
  ELSE \* 10^e > 2^31 > 2|k|: quotient 0, remainder |k| below half a unit
       <<IF mode = "up" THEN Sgn(kk) ELSE 0, -d>>

Round(kk, jj, d)     == RoundGen("half", kk, jj, d)
RoundUp(kk, jj, d)   == RoundGen("up", kk, jj, d)
RoundDown(kk, jj, d) == RoundGen("down", kk, jj, d)
Trunc(kk, jj, d)     == RoundDown(kk, jj, d)

\* INT = floor (toward minus infinity), an integer
IntOf(kk, jj) == FloorPos(kk, Pow10(jj))

\* EVEN / ODD: the next even / odd integer away from zero (x itself when it
\* already is one); ODD(0) = 1
CeilMag(kk, jj) == QUp(Abs(kk), Pow10(jj))           \* least integer >= |x|
Even(kk, jj) == LET c == CeilMag(kk, jj)
                IN  Sgn(kk) * (IF c % 2 = 0 THEN c ELSE c + 1)
Odd(kk, jj)  == LET c == CeilMag(kk, jj)
                    o == IF c % 2 = 1 THEN c ELSE c + 1
                IN  IF kk < 0 THEN -o ELSE o

--------------------------------------------------------------------------
(* MOD(n, m), n = kk/10^jj, m = pp/10^jj: n - m*INT(n/m); numerator at    *)
(* scale 10^jj.  ModQ is INT(n/m).                                         *)
ModQ(kk, pp) == FloorDiv(kk, pp)
Mod(kk, pp)  == kk - pp * ModQ(kk, pp)

(* INT(n/m) and MOD(n, m) as a pair <<q, r>>.  The statement ties the two  *)
(* functions together: n = m*INT(n/m) + MOD(n, m).  On exact numbers the   *)
(* pair is <<ModQ, Mod>>.  A worksheet holds doubles: when n is a multiple  *)
(* of a decimal m that has no exact double (0.3 = 3 * 0.1) the quotient     *)
(* n/m may come out a hair below the whole number; INT is then one less     *)
(* and the remainder one whole divisor more (INT(0.3/0.1) = 2,              *)
(* MOD(0.3, 0.1) = 0.1 in Excel).  That pair is allowed as well: it is the  *)
(* only other one that satisfies the identity with a remainder that does    *)
(* not exceed the divisor.  What is not allowed is to mix the two           *)
(* (INT(1/0.1) = 10 with MOD(1, 0.1) = 0.1 makes 1.1 out of 1).             *)
ModPairs(kk, pp) ==
  {<<ModQ(kk, pp), Mod(kk, pp)>>}
    \cup (IF Mod(kk, pp) = 0 THEN {<<ModQ(kk, pp) - 1, pp>>} ELSE {})

--------------------------------------------------------------------------
(* CEILING / FLOOR family: x = kk/10^jj, significance s4/SigDen.           *)
(* Lo / Hi = the adjacent multiples of |significance| with Lo <= x <= Hi,  *)
(* in units of 1/SigDen (Lo = Hi exactly when x is a multiple).            *)
SUnit(s4, jj) == Abs(s4) * Pow10(jj)                 \* x/|sig| = SigDen*k / SUnit
Lo(kk, jj, s4) == FloorDiv(SigDen * kk, SUnit(s4, jj)) * Abs(s4)
Hi(kk, jj, s4) == IF (SigDen * Abs(kk)) % SUnit(s4, jj) = 0 THEN Lo(kk, jj, s4)
                  ELSE Lo(kk, jj, s4) + Abs(s4)

Variants == <<"CEILING", "CEILING.MATH", "CEILING.MATH1", "CEILING.PRECISE",
              "FLOOR", "FLOOR.MATH", "FLOOR.MATH1", "FLOOR.PRECISE">>
             \* .MATH = mode omitted / 0, .MATH1 = mode 1 (non-zero)
IsCeil(v)   == v \in {"CEILING", "CEILING.MATH", "CEILING.MATH1", "CEILING.PRECISE"}
IsLegacy(v) == v \in {"CEILING", "FLOOR"}

\* What Excel documents (kept for reference and cross-checked against the
\* statement-level relation below; the verdict never depends on it):
\*  CEILING/FLOOR: number > 0 with significance < 0 is #NUM!; both negative
\*    mirrors the positive case (CEILING away from zero, FLOOR toward zero);
\*    otherwise CEILING rounds up, FLOOR down, arithmetically.
\*  .PRECISE and .MATH(mode 0) ignore the sign of the significance and round
\*    up / down arithmetically; .MATH with a non-zero mode mirrors negative
\*    numbers (CEILING.MATH away from zero, FLOOR.MATH toward zero).
\* (lo, hi = Lo / Hi of the same arguments, passed in so that they are
\* computed once per state)
Documented(v, kk, s4, lo, hi) ==
  LET mirror == (IsLegacy(v) /\ kk < 0 /\ s4 < 0)
                \/ (v \in {"CEILING.MATH1", "FLOOR.MATH1"} /\ kk < 0)
  IN  IF IsLegacy(v) /\ kk > 0 /\ s4 < 0 THEN <<"E", "#NUM!">>
      ELSE IF IsCeil(v) = mirror THEN <<"N", lo>> ELSE <<"N", hi>>

\* What the property statement settles ("the adjacent multiples of the
\* significance bracketing x"): the result is one of the two neighbours,
\* it is x itself when x is a multiple, and for a positive number with a
\* positive significance CEILING is the upper and FLOOR the lower one.
\* With a negative argument the variants follow different sign conventions
\* that the statement does not fix: either neighbour is accepted there (and
\* #NUM! where Excel's legacy functions reject the sign combination).
Allowed(v, kk, s4, lo, hi) ==
  IF kk >= 0 /\ s4 > 0 THEN {IF IsCeil(v) THEN hi ELSE lo} ELSE {lo, hi}
ErrAllowed(v, kk, s4) == IsLegacy(v) /\ kk > 0 /\ s4 < 0

--------------------------------------------------------------------------
(* the enumerator machine *)

RECURSIVE Gcd(_, _)
Gcd(a, b) == IF b = 0 THEN a ELSE Gcd(b, a % b)

\* unit of the current (ph, j, p) in k-space; 0 = "no multiples/ties to walk"
Unit == CASE ph = "R" -> IF j - p \in 1..6 THEN Pow10(j - p) ELSE 0
          [] ph = "M" -> Abs(p)
          [] ph = "C" -> LET s == SUnit(p, j)      \* multiples of |sig|: SigDen*k % s = 0
                         IN  s \div Gcd(s, SigDen)
HasTies == ph = "R" /\ Unit > 0
IsMult(kk) == Unit > 0 /\ Abs(kk) % Unit = 0
IsTie(kk)  == HasTies /\ Abs(kk) % Unit = Unit \div 2
RunLen == Run[ph]
JumpLen == Jump[ph]
Visited(i) == i % JumpLen < RunLen

Init == /\ ph \in Phases
        /\ j \in Js
        /\ p \in CASE ph = "R" -> Ds [] ph = "M" -> Divisors[j] [] ph = "C" -> Sigs
        /\ k = 0

Keep == UNCHANGED <<ph, j, p>>

\* consecutive small values
Small == k >= 0 /\ k < SmallMax /\ k' = k + 1 /\ Keep

\* strided grid
GridEnter == k = 0 /\ k' \in (GridOffsets \ {0}) /\ Keep
GridUp == /\ k >= 0 /\ (k % GridStride) \in GridOffsets
          /\ k + GridStride <= Kmax
          /\ k' = k + GridStride /\ Keep

\* exact multiples of the unit: 0, u, 2u, ... in runs, and the last one
MultUp == /\ k >= 0 /\ IsMult(k) /\ k + Unit <= Kmax
          /\ Visited(k \div Unit + 1)
          /\ k' = k + Unit /\ Keep
MultJump == /\ k >= 0 /\ IsMult(k) /\ (k \div Unit) % JumpLen = 0
            /\ Unit <= Kmax \div JumpLen /\ k + JumpLen * Unit <= Kmax
            /\ k' = k + JumpLen * Unit /\ Keep
MultTop == /\ k = 0 /\ Unit > 0 /\ Unit <= Kmax
           /\ k' = (Kmax \div Unit) * Unit /\ Keep

\* exact ties: u/2, u + u/2, ... in runs, and the last one
TieUp == /\ HasTies
         /\ \/ k = 0 /\ k' = Unit \div 2
            \/ /\ k > 0 /\ IsTie(k) /\ k + Unit <= Kmax
               /\ Visited(k \div Unit + 1)
               /\ k' = k + Unit
         /\ Keep
TieJump == /\ HasTies /\ k > 0 /\ IsTie(k) /\ (k \div Unit) % JumpLen = 0
           /\ Unit <= Kmax \div JumpLen /\ k + JumpLen * Unit <= Kmax
           /\ k' = k + JumpLen * Unit /\ Keep
TieTop == /\ HasTies /\ k = 0
          /\ k' = ((Kmax - Unit \div 2) \div Unit) * Unit + Unit \div 2 /\ Keep

\* near-ties and near-multiples: one step of 10^-j to either side
Nudge == /\ k >= 0 /\ Unit >= 2 /\ (IsMult(k) \/ IsTie(k))
         /\ k' \in {k - 1, k + 1} /\ k' >= 0 /\ k' <= Kmax /\ Keep

\* the mirror image
Negate == k > 0 /\ k' = -k /\ Keep

Next == \/ Small \/ GridEnter \/ GridUp \/ MultUp \/ MultJump \/ MultTop
        \/ TieUp \/ TieJump \/ TieTop \/ Nudge \/ Negate
Spec == Init /\ [][Next]_vars

--------------------------------------------------------------------------
(* laws *)

TypeOK == /\ ph \in Phases /\ j \in Js /\ k \in -Kmax..Kmax
          /\ ph = "R" => p \in Ds
          /\ ph = "M" => p \in Divisors[j] /\ p # 0
          /\ ph = "C" => p \in Sigs /\ p # 0

\* the built-in \div and % agree with the magnitude-based floor used above
FloorSane == /\ FloorPos(k, 7) = k \div 7 /\ k - 7 * FloorPos(k, 7) = k % 7
             /\ FloorDiv(k, -7) = (-k) \div 7

\* ROUND family, stated independently of the div/mod definitions:
\*   bracket |ROUNDDOWN| <= |x| <= |ROUNDUP|, both adjacent multiples;
\*   exact multiples are fixed points of all three; ROUND is one of the two,
\*   a nearest one, and the one away from zero on a tie; TRUNC = ROUNDDOWN.
RoundLaws ==
  ph = "R" =>
    LET d == p   e == j - d
        r == Round(k, j, d)  up == RoundUp(k, j, d)  dn == RoundDown(k, j, d)
    IN  /\ Trunc(k, j, d) = dn
        /\ CASE e <= 0 ->          \* every x is a multiple of 10^-d
                  r = <<k, -j>> /\ up = <<k, -j>> /\ dn = <<k, -j>>
             [] e \in 1..9 ->
                  LET u == Pow10(e)                  \* images in k-space
                      R == r[1] * u  U == up[1] * u  D == dn[1] * u
                  IN  /\ r[2] = -d /\ up[2] = -d /\ dn[2] = -d
                      /\ Abs(D) <= Abs(k) /\ Abs(k) <= Abs(U)
                      /\ Abs(U) - Abs(D) \in {0, u}
                      /\ (Abs(k) % u = 0) <=> (U = D)
                      /\ (Abs(k) % u = 0) => (R = k /\ U = k /\ D = k)
                      /\ R \in {D, U}
                      /\ 2 * Abs(k - R) <= u
                      /\ (2 * Abs(k - R) = u) => (R = U /\ Abs(R) > Abs(k))
                      /\ Sgn(R) \in {0, Sgn(k)} /\ Sgn(D) \in {0, Sgn(k)}
                      /\ Sgn(U) = Sgn(k)
             [] e >= 10 ->         \* |k| <= 10^6 < 10^e / 2
                  /\ Abs(k) < 500000000
                  /\ r = <<0, -d>> /\ dn = <<0, -d>> /\ up = <<Sgn(k), -d>>

\* the case analysis for units beyond 32 bits agrees with the generic
\* definition where both are computable (10^7 .. 10^9 > 2 Kmax)
BigUnitAgrees ==
  (ph = "R" /\ j - p \in 7..9) =>
     /\ Round(k, j, p)[1] = 0 /\ RoundDown(k, j, p)[1] = 0
     /\ RoundUp(k, j, p)[1] = Sgn(k)

\* odd symmetry, idempotence
RoundSymmetric ==
  ph = "R" => \A mode \in {"half", "up", "down"} :
     LET a == RoundGen(mode, k, j, p)  b == RoundGen(mode, -k, j, p)
     IN  b[1] = -a[1] /\ b[2] = a[2]
RoundIdempotent ==
  (ph = "R" /\ j - p \in 1..6) => \A mode \in {"half", "up", "down"} :
     LET u == Pow10(j - p)  a == RoundGen(mode, k, j, p)
     IN  \A m2 \in {"half", "up", "down"} : RoundGen(m2, a[1] * u, j, p) = a

\* INT is floor; it is ROUNDDOWN(x, 0) for x >= 0 and -ROUNDUP(|x|, 0) below
IntLaws ==
  ph = "R" =>
    LET i == IntOf(k, j)  t == Pow10(j)
    IN  /\ i * t <= k /\ k < (i + 1) * t
        /\ k >= 0 => i = RoundDown(k, j, 0)[1]
        /\ k < 0 => i = -RoundUp(-k, j, 0)[1]

\* EVEN / ODD: right parity, not nearer to zero than x, less than 2 away,
\* on the side of x (ODD(0) = 1, EVEN(0) = 0)
EvenOddLaws ==
  ph = "R" =>
    LET ev == Even(k, j)  od == Odd(k, j)  t == Pow10(j)
    IN  /\ Abs(ev) % 2 = 0 /\ Abs(od) % 2 = 1
        /\ Abs(ev) * t >= Abs(k) /\ Abs(od) * t >= Abs(k)
        /\ (ev = 0) <=> (k = 0)
        /\ ev # 0 => (Abs(ev) - 2) * t < Abs(k) /\ Sgn(ev) = Sgn(k)
        /\ Abs(od) > 1 => (Abs(od) - 2) * t < Abs(k)
        /\ k # 0 => Sgn(od) = Sgn(k)
        /\ k = 0 => od = 1
        /\ Even(-k, j) = -ev
        /\ k # 0 => Odd(-k, j) = -od

\* MOD: sign of the divisor, smaller than it, n = m*INT(n/m) + MOD(n, m)
\* with INT(n/m) = floor of the exact quotient; period m; mirror law
ModLaws ==
  ph = "M" =>
    LET r == Mod(k, p)  q == ModQ(k, p)
    IN  /\ k = p * q + r
        /\ r = 0 \/ Sgn(r) = Sgn(p)
        /\ Abs(r) < Abs(p)
        /\ IF p > 0 THEN p * q <= k /\ k < p * (q + 1)
                    ELSE p * q >= k /\ k > p * (q + 1)
        /\ (k >= 0 /\ p > 0) => r = k % p
        /\ Mod(k + p, p) = r /\ Mod(k - p, p) = r
        /\ Mod(-k, -p) = -r
        /\ (r = 0) <=> (Abs(k) % Abs(p) = 0)
        \* INT(n/m) and MOD(n, m) together: every allowed pair satisfies the
        \* identity, has the sign of the divisor and does not exceed it; the
        \* exact pair is allowed, a second one only for a multiple
        /\ <<q, r>> \in ModPairs(k, p)
        /\ \A pr \in ModPairs(k, p) :
              /\ k = p * pr[1] + pr[2]
              /\ pr[2] = 0 \/ Sgn(pr[2]) = Sgn(p)
              /\ Abs(pr[2]) <= Abs(p)
              /\ (Abs(pr[2]) = Abs(p)) => (r = 0 /\ pr[1] = q - 1)
              /\ (pr # <<q, r>>) => IsMult(k)

\* CEILING / FLOOR: Lo and Hi are adjacent multiples of |sig| bracketing x;
\* the documented conventions are instances of the statement-level relation
CeilFloorLaws ==
  ph = "C" =>
    LET lo == Lo(k, j, p)  hi == Hi(k, j, p)  t == Pow10(j)
    IN  /\ lo * t <= SigDen * k /\ SigDen * k <= hi * t          \* Lo <= x <= Hi
        /\ Abs(lo) % Abs(p) = 0 /\ Abs(hi) % Abs(p) = 0         \* multiples of |sig|
        /\ hi - lo \in {0, Abs(p)}                     \* adjacent
        /\ (hi = lo) <=> (lo * t = SigDen * k)         \* equal iff x is a multiple
        /\ Lo(-k, j, p) = -hi /\ Hi(-k, j, p) = -lo    \* FLOOR(-x) = -CEILING(x)
        /\ Lo(k, j, -p) = lo                           \* sign of sig is not in the grid
        /\ \A i \in 1..Len(Variants) :
             LET v == Variants[i]  doc == Documented(v, k, p, lo, hi)
                 al == Allowed(v, k, p, lo, hi)
             IN  /\ al \subseteq {lo, hi}
                 /\ (lo = hi) => al = {lo}
                 /\ IF doc[1] = "E" THEN ErrAllowed(v, k, p) ELSE doc[2] \in al

\* along every upward move of the enumerator nothing decreases (all the
\* functions are monotone in x)
Monotone ==
  [][ (k' > k /\ k >= 0) =>
        CASE ph = "R" ->
               /\ IntOf(k', j) >= IntOf(k, j)
               /\ Even(k', j) >= Even(k, j) /\ Odd(k', j) >= Odd(k, j)
               /\ \A mode \in {"half", "up", "down"} :
                     RoundGen(mode, k', j, p)[1] >= RoundGen(mode, k, j, p)[1]
          [] ph = "M" -> TRUE
          [] ph = "C" -> Lo(k', j, p) >= Lo(k, j, p) /\ Hi(k', j, p) >= Hi(k, j, p)
    ]_vars

--------------------------------------------------------------------------
(* export: one JSON vector per state *)

Class == CASE ph = "R" /\ j - p <= 0 -> "fixed"     \* every x is a multiple
           [] ph = "R" /\ j - p >= 7 -> "tiny"      \* |x| below half a unit
           [] IsTie(k) /\ k # 0 -> "tie"
           [] IsMult(k) -> "mult"
           [] IsTie(k - 1) \/ IsTie(k + 1) -> "neartie"
           [] IsMult(k - 1) \/ IsMult(k + 1) -> "nearmult"
           [] OTHER -> "grid"

Export ==
  CASE ph = "R" ->
         PrintT(ToJson([ph |-> "R", k |-> k, j |-> j, d |-> p, cls |-> Class,
                        round |-> Round(k, j, p), up |-> RoundUp(k, j, p),
                        down |-> RoundDown(k, j, p), int |-> IntOf(k, j),
                        even |-> Even(k, j), odd |-> Odd(k, j)]))
    [] ph = "M" ->
         PrintT(ToJson([ph |-> "M", k |-> k, j |-> j, m |-> p, cls |-> Class,
                        mod |-> Mod(k, p), q |-> ModQ(k, p),
                        pairs |-> ModPairs(k, p)]))
    [] ph = "C" ->
         LET lo == Lo(k, j, p)  hi == Hi(k, j, p)  n == Len(Variants)
         IN  PrintT(ToJson([ph |-> "C", k |-> k, j |-> j, s4 |-> p, den |-> SigDen, cls |-> Class,
                        lo |-> lo, hi |-> hi,
                        allow |-> [i \in 1..n |-> Allowed(Variants[i], k, p, lo, hi)],
                        err |-> [i \in 1..n |-> ErrAllowed(Variants[i], k, p)],
                        doc |-> [i \in 1..n |-> Documented(Variants[i], k, p, lo, hi)]]))
=============================================================================
