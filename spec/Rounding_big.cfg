CONSTANTS
  Phases <- MCPhases
  Js <- MCJs
  Ds <- MCDs
  Divisors <- MCDivisors
  Sigs <- MCSigs
  SigDen = 4
  Kmax <- MCKmax
  SmallMax <- BigSmallMax
  GridStride <- BigGridStride
  GridOffsets <- BigGridOffsets
  Run <- BigRun
  Jump <- BigJump
SPECIFICATION Spec
INVARIANT TypeOK
INVARIANT FloorSane
INVARIANT RoundLaws
INVARIANT BigUnitAgrees
INVARIANT RoundSymmetric
INVARIANT RoundIdempotent
INVARIANT IntLaws
INVARIANT EvenOddLaws
INVARIANT ModLaws
INVARIANT CeilFloorLaws
INVARIANT Export
PROPERTY Monotone
