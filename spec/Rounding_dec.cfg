CONSTANTS
  Phases <- DecPhases
  Js <- MCJs
  Ds <- MCDs
  Divisors <- MCDivisors
  Sigs <- DecSigs
  SigDen = 20
  Kmax <- MCKmax
  SmallMax <- MCSmallMax
  GridStride <- MCGridStride
  GridOffsets <- MCGridOffsets
  Run <- MCRun
  Jump <- MCJump
SPECIFICATION Spec
INVARIANT TypeOK
INVARIANT FloorSane
INVARIANT RoundLaws
INVARIANT BigUnitAgrees
INVARIANT RoundSymmetric
INVARIANT RoundIdempotent
INVARIANT IntLaws
INVARIANT EvenOddLaws
INVARIANT ModLaws
INVARIANT CeilFloorLaws
INVARIANT Export
PROPERTY Monotone
