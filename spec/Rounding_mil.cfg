CONSTANTS
  Phases <- DecPhases
  Js <- MilJs
  Ds <- MCDs
  Divisors <- MCDivisors
  Sigs <- MilSigs
  SigDen = 1000
  Kmax <- MCKmax
  SmallMax <- MCSmallMax
  GridStride <- MCGridStride
  GridOffsets <- MCGridOffsets
  Run <- MCRun
  Jump <- MCJump
SPECIFICATION Spec
INVARIANT TypeOK
INVARIANT FloorSane
INVARIANT RoundLaws
INVARIANT BigUnitAgrees
INVARIANT RoundSymmetric
INVARIANT RoundIdempotent
INVARIANT IntLaws
INVARIANT EvenOddLaws
INVARIANT ModLaws
INVARIANT CeilFloorLaws
INVARIANT Export
PROPERTY Monotone
