-------------------------------- MODULE Text --------------------------------
(***************************************************************************)
(* C20 -- Excel's text functions.                                          *)
(*                                                                         *)
(* A text is a sequence of symbol codes (one code = one character, however *)
(* many bytes it takes); the harness maps the codes to characters:         *)
(*    1 'a'   2 'b'   3 ' '   4 'A'   5 'e-acute'   6 'B'   7 'E-acute'    *)
(*    8 a CJK character      10..19 the digits '0'..'9'                    *)
(*   20 '.'  21 '-'  22 ','  23 '%'  24 '#'  25 'E'  26 '+'  27 'e'        *)
(* 4/6/7/25 are the upper-case twins of 1/2/5/27 (EXACT, UPPER, LOWER);    *)
(* 'E' and '+' only occur in the rendering of a very large or very small   *)
(* number ("1E+21"), 'e' in its LOWER().                                   *)
(*                                                                         *)
(* Values are tagged tuples: <<"S", text>>, <<"N", n>>, <<"B", TRUE>>,     *)
(* <<"E", "#VALUE!">>, and <<"U">> = "the property statement does not fix  *)
(* the answer for this input" (the harness does not judge such vectors).   *)
(*                                                                         *)
(* The enumerator machine has one variable for the text under test (s), a  *)
(* tag telling whether s was typed (built by AppendChar) or is the Excel   *)
(* rendering of the number k/10^j (the slicing functions must treat the    *)
(* number 3.0 as the text "3", 0.00001 as "0.00001" and 10^21 as "1E+21":  *)
(* the General format, see General below; the Scale action moves the       *)
(* decimal point of a number one place at a time through every magnitude   *)
(* of ScaleJ), and the format of TEXT() under construction (built by       *)
(* AppendFmt along the format grammar; every complete format is judged     *)
(* against every number of Nums).                                          *)
(* The laws named in the property are invariants over the definitions;     *)
(* Export prints one JSON vector per state for the conformance run.        *)
(***************************************************************************)
EXTENDS Integers, Sequences, FiniteSets, TLC, Json

CONSTANTS Alphabet,   \* symbol codes a typed text is built from
          MaxLen,     \* longest typed text
          Seeds,      \* typed texts the machine starts from (<<>>: exhaustive)
          Pos,        \* positions and counts n, k range over this set (-1..10)
          Tenths,     \* every position / count n >= 0 is also passed as n + f/10, f in
                      \* this subset of 1..9 (a count computed as LEN(s)/2 has a fraction)
          NewTexts,   \* replacement / second-operand texts t
          FindLen,    \* search texts: every text over Alphabet up to this length
          Nums,       \* set of <<k, j>>: the number k / 10^j  (j in 0..8)
          Scaled,     \* set of <<k, j>>: numbers whose decimal point the machine moves
                      \* (k without trailing zeros, so that j fixes the magnitude)
          ScaleJ,     \* ... through every j of this interval; j < 0 stands for
                      \* k * 10^(-j)  (<<1, -21>> is 10^21, <<1, 5>> is 0.00001)
          FmtMax      \* longest TEXT() format

VARIABLES s,          \* the text under test
          src,        \* <<"T", 0, 0>> typed text, <<"N", k, j>> rendering of k/10^j,
                      \* <<"U", k, j>> the number k/10^j at a magnitude where Excel's
                      \* rendering is not judged (s stays empty),
                      \* <<"F", 0, 0>> the format machine (s stays empty)
          fmt         \* format under construction (<<>> in the slicing states)
vars == <<s, src, fmt>>

-----------------------------------------------------------------------------
(* symbols *)
SP == 3
c0 == 10   DOT == 20   MINUS == 21   COMMA == 22   PCT == 23   HASH == 24
EE == 25   PLUS == 26   LE == 27
Codes == 1..27
LowerOf == [c \in Codes |-> CASE c = 4 -> 1 [] c = 6 -> 2 [] c = 7 -> 5 [] c = EE -> LE
                               [] OTHER -> c]
UpperOf == [c \in Codes |-> CASE c = 1 -> 4 [] c = 2 -> 6 [] c = 5 -> 7 [] c = LE -> EE
                               [] OTHER -> c]
LowerCase == {1, 2, 5, LE}     \* letters that have an upper-case twin
UpperCase == {4, 6, 7, EE}

(* values *)
T(x)     == <<"S", x>>
N(n)     == <<"N", n>>
B(b)     == <<"B", b>>
ValueErr == <<"E", "#VALUE!">>
Unjudged == <<"U">>
IsErr(v) == v[1] = "E"

Min(a, b) == IF a < b THEN a ELSE b
Max(a, b) == IF a > b THEN a ELSE b
Abs(a)    == IF a < 0 THEN -a ELSE a

\* the characters of x at the positions from..to that exist
Slice(x, from, to) == SubSeq(x, Max(from, 1), Min(to, Len(x)))

-----------------------------------------------------------------------------
(* the functions *)

\* LEN
LenF(x) == N(Len(x))

\* s & t on values: the first error wins; an unjudged operand is unjudged
Amp(u, v) == IF IsErr(u) THEN u
             ELSE IF u = Unjudged THEN Unjudged
             ELSE IF IsErr(v) THEN v
             ELSE IF v = Unjudged THEN Unjudged
             ELSE T(u[2] \o v[2])

\* CONCATENATE(v1, ..., vn) on a sequence of values
RECURSIVE Concatenate(_)
Concatenate(vs) == IF vs = <<>> THEN T(<<>>)
                   ELSE Amp(Head(vs), Concatenate(Tail(vs)))

\* LEFT(x, n): the first n characters (all of x when n > LEN); n < 0 -> #VALUE!
Left(x, n)  == IF n < 0 THEN ValueErr ELSE T(Slice(x, 1, n))

\* RIGHT(x, k): the last k characters; k < 0 -> #VALUE!
Right(x, k) == IF k < 0 THEN ValueErr ELSE T(Slice(x, Len(x) - k + 1, Len(x)))

\* LEFT(x) and RIGHT(x): the count defaults to 1
LeftDefault(x)  == Left(x, 1)
RightDefault(x) == Right(x, 1)

\* MID(x, p, c): c characters from position p; c < 0 -> #VALUE!.
\* A start below 1 is an error in Excel too, but the statement only speaks of
\* negative counts: left unjudged.
Mid(x, p, c) == IF p < 1 THEN Unjudged
                ELSE IF c < 0 THEN ValueErr
                ELSE T(Slice(x, p, p + c - 1))

\* REPLACE(x, n, k, t): drop k characters from position n, put t there.
\* n < 1 is LEFT(x, n-1) with a negative count, k < 0 a negative count.
Replace(x, n, k, t) ==
  IF n < 1 \/ k < 0 THEN ValueErr
  ELSE T(Slice(x, 1, n - 1) \o t \o Slice(x, n + k, Len(x)))

(* A position or count that has a fraction is truncated: LEFT(s, 1.9) is    *)
(* LEFT(s, 1) and RIGHT(s, 0.5) is RIGHT(s, 0) = "".  Such an argument is   *)
(* written in tenths here: q = 10 * n + f stands for n + f/10 (n >= 0).  A  *)
(* negative fraction (-0.5) is not generated: the statement only fixes      *)
(* "negative counts", and whether -0.5 is one is not clear.                 *)
Whole(q) == q \div 10
LeftQ(x, q)  == Left(x, Whole(q))
RightQ(x, q) == Right(x, Whole(q))
MidQ(x, p, c) == Mid(x, Whole(p), Whole(c))
ReplaceQ(x, n, k, t) == Replace(x, Whole(n), Whole(k), t)

\* f occurs in x at position p (the empty text occurs at 1..LEN+1)
MatchAt(f, x, p) == /\ p >= 1 /\ p + Len(f) - 1 <= Len(x)
                    /\ \A i \in 1..Len(f) : x[p + i - 1] = f[i]
Matches(f, x) == {p \in 1..(Len(x) + 1) : MatchAt(f, x, p)}
SetMin(S) == CHOOSE m \in S : \A o \in S : m <= o

\* FIND(f, x, start): a *set* of allowed answers.
\*  - start < 1: unjudged (statement silent);
\*  - the empty text sought from start = LEN+1: the statement's reading
\*    (MID(x, LEN+1, 0) = "") gives LEN+1, Excel's documentation gives #VALUE!
\*    (start beyond the text): both allowed -- except for start = 1 (the
\*    default), which is a position of every text: FIND("", "") = 1.
\* FIND(f, x) is FIND(f, x, 1); a start with a fraction is truncated.
FindAllowed(f, x, start) ==
  IF start < 1 THEN {Unjudged}
  ELSE LET P == {p \in Matches(f, x) : p >= start}
       IN  IF P = {} THEN {ValueErr}
           ELSE IF f = <<>> /\ start = Len(x) + 1 /\ start > 1 THEN {N(start), ValueErr}
           ELSE {N(SetMin(P))}
FindAllowedQ(f, x, q) == FindAllowed(f, x, Whole(q))

\* SUBSTITUTE: left-to-right scan; inst = 0 replaces every occurrence,
\* inst = i >= 1 only the i-th.  The scan resumes *after* an occurrence.
RECURSIVE SubstScan(_, _, _, _, _, _)
SubstScan(x, o, t, inst, p, seen) ==
  IF p > Len(x) THEN <<>>
  ELSE IF MatchAt(o, x, p)
       THEN (IF inst = 0 \/ seen + 1 = inst THEN t ELSE o)
              \o SubstScan(x, o, t, inst, p + Len(o), seen + 1)
       ELSE <<x[p]>> \o SubstScan(x, o, t, inst, p + 1, seen)

\* o overlaps itself when a proper prefix is also a suffix ("aa", "aba").
\* Occurrences are counted by the left-to-right scan that resumes after each
\* occurrence (what "replace all" does in Excel and everywhere else), so the
\* i-th occurrence is well defined for such texts too: SUBSTITUTE("aaaa",
\* "aa", "X", 2) = "aaX".
\* The empty old text has no occurrence that could be replaced (the scan
\* would never advance): Excel hands the text back unchanged,
\* SUBSTITUTE("abc", "", "x") = "abc", with or without an instance number.
SelfOverlap(o) == \E m \in 1..(Len(o) - 1) :
                     SubSeq(o, 1, m) = SubSeq(o, Len(o) - m + 1, Len(o))
SubstJudged(o) == o # <<>>       \* o has occurrences: the scan laws apply

SubstituteAll(x, o, t) ==
  IF o = <<>> THEN T(x) ELSE T(SubstScan(x, o, t, 0, 1, 0))
SubstituteNth(x, o, t, i) ==
  IF i < 1 THEN Unjudged
  ELSE IF o = <<>> THEN T(x) ELSE T(SubstScan(x, o, t, i, 1, 0))

\* TRIM keeps every non-space character, and a space exactly when it directly
\* follows a non-space character and some non-space character comes later.
TrimKeeps(x, i) == \/ x[i] # SP
                   \/ /\ i > 1 /\ x[i - 1] # SP
                      /\ \E m \in (i + 1)..Len(x) : x[m] # SP
RECURSIVE TrimFrom(_, _)
TrimFrom(x, i) == IF i > Len(x) THEN <<>>
                  ELSE (IF TrimKeeps(x, i) THEN <<x[i]>> ELSE <<>>) \o TrimFrom(x, i + 1)
Trim(x) == TrimFrom(x, 1)

Upper(x) == [i \in 1..Len(x) |-> UpperOf[x[i]]]
Lower(x) == [i \in 1..Len(x) |-> LowerOf[x[i]]]

\* EXACT: same characters, case matters
Exact(x, y) == B(x = y)

-----------------------------------------------------------------------------
(* numbers as digit sequences *)

Digit(d) == c0 + d
RECURSIVE DigitsOf(_)            \* decimal digits of n >= 0, "0" for zero
DigitsOf(n) == IF n < 10 THEN <<Digit(n)>> ELSE DigitsOf(n \div 10) \o <<Digit(n % 10)>>
Zeros(n) == [i \in 1..Max(n, 0) |-> c0]
RECURSIVE StripZ(_)              \* without leading zeros (zero becomes empty)
StripZ(d) == IF d # <<>> /\ d[1] = c0 THEN StripZ(Tail(d)) ELSE d
RECURSIVE DropTrailingZeros(_, _)   \* but keep at least keep digits
DropTrailingZeros(d, keep) ==
  IF Len(d) > keep /\ d[Len(d)] = c0
  THEN DropTrailingZeros(SubSeq(d, 1, Len(d) - 1), keep) ELSE d
RECURSIVE Inc(_)                 \* digit sequence plus one
Inc(d) == IF d = <<>> THEN <<Digit(1)>>
          ELSE IF d[Len(d)] = Digit(9) THEN Inc(SubSeq(d, 1, Len(d) - 1)) \o <<c0>>
          ELSE [d EXCEPT ![Len(d)] = d[Len(d)] + 1]
RECURSIVE Pow10(_)
Pow10(e) == IF e = 0 THEN 1 ELSE 10 * Pow10(e - 1)
RECURSIVE ValueOf(_)             \* only used where it fits 32 bits
ValueOf(d) == IF d = <<>> THEN 0 ELSE 10 * ValueOf(SubSeq(d, 1, Len(d) - 1)) + (d[Len(d)] - c0)

\* How Excel shows the number k/10^j (0 <= j) of moderate magnitude in & and
\* in the text functions: sign, integer digits ("0" when there are none), and
\* the fraction without trailing zeros; no point when the number is whole
\* (3, not 3.0).  General below is the definition for every magnitude.
Render(k, j) ==
  LET a    == DigitsOf(Abs(k))
      pad  == Zeros(j + 1 - Len(a)) \o a              \* at least j+1 digits
      ip   == SubSeq(pad, 1, Len(pad) - j)
      fp   == DropTrailingZeros(SubSeq(pad, Len(pad) - j + 1, Len(pad)), 0)
  IN  (IF k < 0 THEN <<MINUS>> ELSE <<>>) \o ip
        \o (IF fp = <<>> THEN <<>> ELSE <<DOT>> \o fp)

(* The General format: how Excel turns a number into text wherever a text   *)
(* is wanted (&, CONCATENATE, LEFT, MID, LEN, ...).  The number is           *)
(*      x = k / 10^j     (any integer j; j < 0 multiplies by 10^(-j)),       *)
(* an exact decimal.  With m = m1 m2 .. mt its significant digits (no        *)
(* leading, no trailing zeros) and e its decimal exponent,                   *)
(*      |x| = m1.m2..mt * 10^e,                                              *)
(* General shows at most 15 significant digits, in one of two notations:     *)
(*   positional  "-0.00001", "1234.5", "120000"     (never "3.0")            *)
(*   scientific  "1E+21", "-2.5E-21": m1[.m2..mt] E sign and at least two    *)
(*               exponent digits.                                            *)
(* Which notation is used depends on the width the positional one would     *)
(* need.  Only the magnitudes where Excel's choice is beyond doubt are       *)
(* judged (Regime):                                                          *)
(*   "P" positional: 10^-9 <= |x| < 10^15 (and not more than 20 characters), *)
(*   "S" scientific: |x| >= 10^20, and |x| < 10^-9 when the positional       *)
(*       notation would need more than 20 characters (1E-19 would be         *)
(*       0.0000000000000000001, 21 characters),                              *)
(*   "U" not judged: 10^15 <= |x| < 10^20 (16..20 digit integers: Excel      *)
(*       pads the 15 digits with zeros up to some width and switches to the  *)
(*       exponent somewhere in this range), |x| < 10^-9 in less than 21      *)
(*       characters (0.0000000001 or 1E-10), and numbers of more than 15     *)
(*       significant digits (they would have to be rounded; k is a TLC       *)
(*       integer of at most 10 digits, so they are not enumerated).          *)
MaxSig   == 15
MaxWidth == 20
SigDigits(k) == DropTrailingZeros(DigitsOf(Abs(k)), 1)      \* m (k # 0)
DecExp(k, j) == Len(DigitsOf(Abs(k))) - 1 - j               \* e (k # 0)

\* characters the positional notation of m1.m2..mt * 10^e needs, without sign
PosWidth(m, e) == IF e >= 0 THEN (IF Len(m) > e + 1 THEN Len(m) + 1 ELSE e + 1)
                  ELSE 1 - e + Len(m)                        \* "0." zeros m

Positional(m, e) ==
  IF e >= 0
  THEN LET d == m \o Zeros(e + 1 - Len(m))
       IN  SubSeq(d, 1, e + 1)
             \o (IF Len(d) > e + 1 THEN <<DOT>> \o SubSeq(d, e + 2, Len(d)) ELSE <<>>)
  ELSE <<c0, DOT>> \o Zeros(-e - 1) \o m

Scientific(m, e) ==
  <<m[1]>> \o (IF Len(m) > 1 THEN <<DOT>> \o Tail(m) ELSE <<>>)
    \o <<EE, IF e < 0 THEN MINUS ELSE PLUS>>
    \o (IF Abs(e) < 10 THEN <<c0>> ELSE <<>>) \o DigitsOf(Abs(e))

Regime(k, j) ==
  IF k = 0 THEN "P"
  ELSE LET m == SigDigits(k)  e == DecExp(k, j)
       IN  IF Len(m) > MaxSig THEN "U"
           ELSE IF e >= -9 /\ e <= 14 /\ PosWidth(m, e) <= MaxWidth THEN "P"
           ELSE IF e >= 20 THEN "S"
           ELSE IF e <= -10 /\ PosWidth(m, e) > MaxWidth THEN "S"
           ELSE "U"

General(k, j) ==
  IF k = 0 THEN <<c0>>
  ELSE LET m == SigDigits(k)  e == DecExp(k, j)
       IN  (IF k < 0 THEN <<MINUS>> ELSE <<>>)
             \o (IF Regime(k, j) = "S" THEN Scientific(m, e) ELSE Positional(m, e))

\* the state of the machine that stands for the number k/10^j
NumSrc(k, j)  == <<IF Regime(k, j) = "U" THEN "U" ELSE "N", k, j>>
NumText(k, j) == IF Regime(k, j) = "U" THEN <<>> ELSE General(k, j)

\* digits of ROUND(a * 10^e / 10^j, 0), half away from zero (a >= 0):
\* append e zeros, cut the last j digits, add one when the first cut digit
\* is 5 or more.  The result may carry leading zeros.
RoundDigits(a, j, e) ==
  LET d    == DigitsOf(a) \o Zeros(e)
      pad  == Zeros(j + 1 - Len(d)) \o d
      keep == SubSeq(pad, 1, Len(pad) - j)
      up   == j > 0 /\ pad[Len(pad) - j + 1] >= Digit(5)
  IN  IF up THEN Inc(keep) ELSE keep

-----------------------------------------------------------------------------
(* TEXT(x, f) for the formats  #*0* with one optional ',' between two       *)
(* placeholders, then optionally '.' 0* #*, then optionally '%'             *)

FmtChars == {c0, HASH, COMMA, DOT, PCT}

\* scanner state: ph 0 integer '#'s, 1 integer '0's, 2 decimal '0's,
\* 3 decimal '#'s, 4 after '%', 9 not a prefix of a format
FmtStep(st, c) ==
  LET bad   == [st EXCEPT !.ph = 9]
      place == st.last \in {c0, HASH}
  IN CASE st.ph = 0 ->
            (CASE c = HASH  -> [st EXCEPT !.np = @ + 1, !.last = c]
               [] c = c0    -> [st EXCEPT !.ph = 1, !.np = @ + 1, !.last = c]
               [] c = COMMA -> IF place /\ ~st.comma
                               THEN [st EXCEPT !.comma = TRUE, !.last = c] ELSE bad
               [] c = DOT   -> IF place THEN [st EXCEPT !.ph = 2, !.last = c] ELSE bad
               [] c = PCT   -> IF place THEN [st EXCEPT !.ph = 4, !.last = c] ELSE bad)
       [] st.ph = 1 ->
            (CASE c = HASH  -> bad
               [] c = c0    -> [st EXCEPT !.np = @ + 1, !.last = c]
               [] c = COMMA -> IF place /\ ~st.comma
                               THEN [st EXCEPT !.comma = TRUE, !.last = c] ELSE bad
               [] c = DOT   -> IF place THEN [st EXCEPT !.ph = 2, !.last = c] ELSE bad
               [] c = PCT   -> IF place THEN [st EXCEPT !.ph = 4, !.last = c] ELSE bad)
       [] st.ph = 2 ->
            (CASE c = c0    -> [st EXCEPT !.last = c]
               [] c = HASH  -> [st EXCEPT !.ph = 3, !.last = c]
               [] c = PCT   -> [st EXCEPT !.ph = 4, !.last = c]
               [] OTHER     -> bad)
       [] st.ph = 3 ->
            (CASE c = HASH  -> [st EXCEPT !.last = c]
               [] c = PCT   -> [st EXCEPT !.ph = 4, !.last = c]
               [] OTHER     -> bad)
       [] OTHER -> bad

RECURSIVE FmtScan(_, _, _)
FmtScan(f, i, st) == IF i > Len(f) THEN st ELSE FmtScan(f, i + 1, FmtStep(st, f[i]))
FmtState(f) == FmtScan(f, 1, [ph |-> 0, np |-> 0, comma |-> FALSE, last |-> 0])

FmtPrefixOK(f) == FmtState(f).ph # 9
FmtComplete(f) == LET st == FmtState(f)
                  IN  st.ph # 9 /\ st.np >= 1 /\ st.last # COMMA

Count(f, c, from, to) == Cardinality({i \in from..to : f[i] = c})
DotAt(f) == IF \E i \in 1..Len(f) : f[i] = DOT
            THEN CHOOSE i \in 1..Len(f) : f[i] = DOT ELSE Len(f) + 1

\* what a complete format asks for
FmtParams(f) ==
  [z   |-> Count(f, c0, 1, DotAt(f) - 1),      \* forced integer digits
   a   |-> Count(f, c0, DotAt(f), Len(f)),     \* forced decimals
   b   |-> Count(f, HASH, DotAt(f), Len(f)),   \* optional decimals
   g   |-> FmtState(f).comma,                  \* thousands grouping
   dot |-> DotAt(f) <= Len(f),
   pct |-> f[Len(f)] = PCT]

RECURSIVE Group(_)               \* 1234567 -> 1,234,567
Group(d) == IF Len(d) <= 3 THEN d
            ELSE Group(SubSeq(d, 1, Len(d) - 3)) \o <<COMMA>> \o SubSeq(d, Len(d) - 2, Len(d))

\* the rounded magnitude |k|/10^j (* 100 for '%') with d decimals, as digits
TextDigits(k, j, f) ==
  LET P == FmtParams(f)
  IN  RoundDigits(Abs(k), j, P.a + P.b + (IF P.pct THEN 2 ELSE 0))

TextOf(k, j, f) ==
  LET P    == FmtParams(f)
      d    == P.a + P.b
      M0   == TextDigits(k, j, f)
      M    == Zeros(d + 1 - Len(M0)) \o M0
      ip   == StripZ(SubSeq(M, 1, Len(M) - d))
      ipad == Zeros(P.z - Len(ip)) \o ip
      fp   == DropTrailingZeros(SubSeq(M, Len(M) - d + 1, Len(M)), P.a)
  IN  IF k < 0 /\ StripZ(M) = <<>> THEN Unjudged   \* "-0.00" or "0.00": not fixed
      \* grouping covers the zero padding too: TEXT(12, "0,000") = "0,012"
      ELSE T((IF k < 0 THEN <<MINUS>> ELSE <<>>)
             \o (IF P.g THEN Group(ipad) ELSE ipad)
             \o (IF P.dot THEN <<DOT>> ELSE <<>>) \o fp
             \o (IF P.pct THEN <<PCT>> ELSE <<>>))

-----------------------------------------------------------------------------
(* pools derived from the constants *)

RECURSIVE TextsUpTo(_)           \* every text over Alphabet of length <= n
TextsUpTo(n) == IF n = 0 THEN {<<>>}
                ELSE LET R == TextsUpTo(n - 1)
                     IN  R \cup {Append(x, c) : x \in {y \in R : Len(y) = n - 1}, c \in Alphabet}

\* search texts: the short texts over the alphabet plus the short pieces of s
\* itself (so that digits and '.' are sought in rendered numbers)
FindTexts(x) == TextsUpTo(FindLen) \cup
                {Slice(x, p, p + l - 1) : p \in 1..Len(x), l \in 1..FindLen}

Occurrences(x, o) == Cardinality(Matches(o, x))

-----------------------------------------------------------------------------
(* the machine *)

Init == \/ /\ s \in Seeds
           /\ src = <<"T", 0, 0>>
           /\ fmt = <<>>
        \/ \E kj \in Nums \cup Scaled :
           /\ s = NumText(kj[1], kj[2])
           /\ src = NumSrc(kj[1], kj[2])
           /\ fmt = <<>>
        \/ /\ FmtMax > 0
           /\ s = <<>>
           /\ src = <<"F", 0, 0>>
           /\ fmt = <<>>

AppendChar(c) == /\ src[1] = "T"
                 /\ Len(s) < MaxLen
                 /\ s' = Append(s, c)
                 /\ UNCHANGED <<src, fmt>>

AppendFmt(c) == /\ src[1] = "F"
                /\ Len(fmt) < FmtMax
                /\ FmtPrefixOK(Append(fmt, c))
                /\ fmt' = Append(fmt, c)
                /\ UNCHANGED <<s, src>>

\* move the decimal point one place: d = 1 divides by ten, d = -1 multiplies
ScaledKs == {kj[1] : kj \in Scaled}
Scale(d) == /\ src[1] \in {"N", "U"}
            /\ src[2] \in ScaledKs
            /\ src[3] + d \in ScaleJ
            /\ s' = NumText(src[2], src[3] + d)
            /\ src' = NumSrc(src[2], src[3] + d)
            /\ UNCHANGED fmt

Next == \/ \E c \in Alphabet : AppendChar(c)
        \/ \E c \in FmtChars : AppendFmt(c)
        \/ \E d \in {-1, 1} : Scale(d)

Spec == Init /\ [][Next]_vars

Slicing == src[1] \in {"T", "N"}            \* states judged by the slicing laws
Formatting == src[1] = "F" /\ FmtComplete(fmt)

TypeOK == /\ \A i \in 1..Len(s) : s[i] \in Codes
          /\ src[1] \in {"T", "N", "U", "F"}
          /\ \A i \in 1..Len(fmt) : fmt[i] \in FmtChars
          /\ FmtPrefixOK(fmt)
          /\ src[1] = "T" => fmt = <<>> /\ Len(s) <= MaxLen
          /\ src[1] = "N" => /\ fmt = <<>> /\ s = General(src[2], src[3])
                              /\ Regime(src[2], src[3]) \in {"P", "S"}
          /\ src[1] = "U" => fmt = <<>> /\ s = <<>> /\ Regime(src[2], src[3]) = "U"
          /\ src[1] = "F" => s = <<>> /\ Len(fmt) <= FmtMax

-----------------------------------------------------------------------------
(* the laws of the statement, on the definitions *)

\* LEFT(s,n) & MID(s,n+1,LEN(s)) = s for every split position, 0 and beyond
\* LEN included; a negative count is #VALUE! (and & hands the error on)
SplitLaw == Slicing =>
  \A n \in Pos :
    IF n < 0 THEN Left(s, n) = ValueErr /\ Amp(Left(s, n), Mid(s, n + 1, Len(s))) = ValueErr
    ELSE Amp(Left(s, n), Mid(s, n + 1, Len(s))) = T(s)

\* RIGHT(s,k) is the last k characters: what LEFT(s, LEN-k) leaves over
RightLaw == Slicing =>
  \A k \in Pos :
    IF k < 0 THEN Right(s, k) = ValueErr
    ELSE /\ Amp(Left(s, Max(Len(s) - k, 0)), Right(s, k)) = T(s)
         /\ Len(Right(s, k)[2]) = Min(k, Len(s))
         /\ k <= Len(s) => Right(s, k) = Mid(s, Len(s) - k + 1, k)

\* a fraction on a position or count changes nothing: it is cut off.  In
\* particular RIGHT(s, 0.5) is empty and LEFT(s, n.f) & MID(s, n.f + 1, ..) is
\* still s.
TruncLaw == Slicing =>
  \A n \in Pos, f \in Tenths :
    n >= 0 =>
      LET q == 10 * n + f IN
      /\ Whole(q) = n
      /\ LeftQ(s, q) = Left(s, n) /\ RightQ(s, q) = Right(s, n)
      /\ Len(RightQ(s, q)[2]) = Min(n, Len(s))
      /\ Amp(LeftQ(s, q), MidQ(s, q + 10, 10 * Len(s))) = T(s)
      /\ MidQ(s, q, q) = Mid(s, n, n)
      /\ \A t \in NewTexts : ReplaceQ(s, q, q, t) = Replace(s, n, n, t)
      /\ FindAllowedQ(<<>>, s, q) = FindAllowed(<<>>, s, n)

\* MID is LEFT of what LEFT leaves over
MidLaw == Slicing =>
  \A p \in Pos, c \in Pos :
    p >= 1 => IF c < 0 THEN Mid(s, p, c) = ValueErr
              ELSE /\ Mid(s, p, c) = Left(Mid(s, p, Len(s))[2], c)
                   /\ Amp(Left(s, p - 1), Mid(s, p, Len(s))) = T(s)

\* REPLACE(s,n,k,t) = LEFT(s,n-1) & t & MID(s,n+k,LEN(s))  (k >= 0; for
\* n < 1 both sides are #VALUE!), negative count -> #VALUE!
ReplaceLaw == Slicing =>
  \A n \in Pos, k \in Pos, t \in NewTexts :
    IF k < 0 THEN Replace(s, n, k, t) = ValueErr
    ELSE Replace(s, n, k, t) =
           Amp(Amp(Left(s, n - 1), T(t)),
               IF n < 1 THEN ValueErr ELSE Mid(s, n + k, Len(s)))

\* FIND: the answer is a match, nothing earlier (from start on) is, and
\* #VALUE! only when nothing matches
FindLaw == Slicing =>
  \A f \in FindTexts(s), st \in Pos :
    st >= 1 =>
      \A r \in FindAllowed(f, s, st) :
        /\ r[1] = "N" => /\ r[2] >= st
                         /\ Mid(s, r[2], Len(f)) = T(f)
                         /\ \A q \in st..(r[2] - 1) : Mid(s, q, Len(f)) # T(f)
        /\ r = ValueErr => \A q \in st..Len(s) : Mid(s, q, Len(f)) # T(f)

\* the i-th smallest element of a set of integers
RECURSIVE NthOf(_, _)
NthOf(S, i) == IF i = 1 THEN SetMin(S) ELSE NthOf(S \ {SetMin(S)}, i - 1)

\* replacing occurrences one at a time, from the last one down to the first
RECURSIVE ReplaceDown(_, _, _, _)
ReplaceDown(x, P, lo, t) ==
  IF P = {} THEN x
  ELSE LET m == CHOOSE q \in P : \A o \in P : q >= o
       IN  ReplaceDown(Replace(x, m, lo, t)[2], P \ {m}, lo, t)

\* SUBSTITUTE(s,o,t,i) = REPLACE at the i-th occurrence (s itself when there
\* are fewer); without i every occurrence is replaced
SubstLaw == Slicing =>
  \A o \in FindTexts(s), t \in NewTexts :
    SubstJudged(o) /\ ~SelfOverlap(o) =>     \* every match position is an occurrence
      LET P == Matches(o, s)
      IN  /\ \A i \in 1..(Cardinality(P) + 1) :
                SubstituteNth(s, o, t, i) =
                  IF i <= Cardinality(P) THEN Replace(s, NthOf(P, i), Len(o), t)
                  ELSE T(s)
          /\ SubstituteAll(s, o, t) = T(ReplaceDown(s, P, Len(o), t))
          /\ SubstituteAll(s, o, o) = T(s)
          /\ Len(SubstituteAll(s, o, t)[2]) =
               Len(s) + Cardinality(P) * (Len(t) - Len(o))

\* the empty old text: nothing to replace
SubstEmptyLaw == Slicing =>
  \A t \in NewTexts :
    /\ SubstituteAll(s, <<>>, t) = T(s)
    /\ \A i \in 1..(Len(s) + 2) : SubstituteNth(s, <<>>, t, i) = T(s)

\* self-overlapping old text: occurrences are those of the resuming scan
SubstOverlapLaw == Slicing =>
  \A o \in FindTexts(s), t \in NewTexts :
    SubstJudged(o) /\ SelfOverlap(o) =>
      /\ SubstituteAll(s, o, o) = T(s)
      /\ SubstituteNth(s, o, o, 1) = T(s)
      /\ (Matches(o, s) = {} => SubstituteAll(s, o, t) = T(s))

\* CONCATENATE and & agree (also on errors: the first one wins)
ConcatLaw == Slicing =>
  \A t \in NewTexts :
    /\ Concatenate(<<T(s), T(t)>>) = Amp(T(s), T(t))
    /\ Concatenate(<<T(s), T(t), T(s)>>) = Amp(Amp(T(s), T(t)), T(s))
    /\ Concatenate(<<T(s), ValueErr, T(t)>>) = Amp(Amp(T(s), ValueErr), T(t))
    /\ Amp(T(s), T(t)) = T(s \o t)

NotSpace(c) == c # SP
\* TRIM: no space at either end, no two spaces in a row, the other characters
\* untouched and in order, one space between two words
TrimLaw == Slicing =>
  LET t == Trim(s)
      words(x) == Cardinality({i \in 1..Len(x) : x[i] # SP /\ (i = 1 \/ x[i - 1] = SP)})
  IN  /\ t # <<>> => t[1] # SP /\ t[Len(t)] # SP
      /\ \A i \in 1..(Len(t) - 1) : ~(t[i] = SP /\ t[i + 1] = SP)
      /\ SelectSeq(t, NotSpace) = SelectSeq(s, NotSpace)
      /\ words(t) = words(s)
      /\ Cardinality({i \in 1..Len(t) : t[i] = SP}) = Max(words(s) - 1, 0)

\* UPPER / LOWER / TRIM idempotent; case mapping keeps the length
IdemLaw == Slicing =>
  /\ Trim(Trim(s)) = Trim(s)
  /\ Upper(Upper(s)) = Upper(s)
  /\ Lower(Lower(s)) = Lower(s)
  /\ Len(Upper(s)) = Len(s) /\ Len(Lower(s)) = Len(s)
  /\ Lower(Upper(s)) = Lower(s) /\ Upper(Lower(s)) = Upper(s)

\* EXACT is equality of texts, case matters
ExactLaw == Slicing =>
  /\ Exact(s, s) = B(TRUE)
  /\ Exact(s, Upper(s)) = B(\A i \in 1..Len(s) : s[i] \notin LowerCase)
  /\ Exact(s, Lower(s)) = B(\A i \in 1..Len(s) : s[i] \notin UpperCase)
  /\ \A t \in NewTexts : Exact(s, t) = Exact(t, s) /\ (Exact(s, t) = B(TRUE) <=> s = t)

\* the rendering of k/10^j reads back as k/10^j, has no ".0", no needless
\* zero and never more than 20 characters after the sign; in the exponent
\* notation there is one digit before the point and the exponent has a sign
\* and at least two digits ("1E+21", "2.5E-21", "1E-100")
IsDigits(d) == \A i \in 1..Len(d) : d[i] \in c0..(c0 + 9)
RenderLaw == (Slicing /\ src[1] = "N") =>
  LET k == src[2]  j == src[3]
      body == IF k < 0 THEN Tail(s) ELSE s
      ePos == IF \E i \in 1..Len(body) : body[i] = EE
              THEN CHOOSE i \in 1..Len(body) : body[i] = EE ELSE Len(body) + 1
      mant == SubSeq(body, 1, ePos - 1)          \* all of it in the positional notation
      expo == SubSeq(body, ePos + 1, Len(body))  \* sign and digits of the exponent
      dot  == DotAt(mant)
      ip   == SubSeq(mant, 1, dot - 1)
      fp   == SubSeq(mant, dot + 1, Len(mant))
      x10  == IF ePos > Len(body) THEN 0
              ELSE (IF expo[1] = MINUS THEN -1 ELSE 1) * ValueOf(Tail(expo))
      \* (ip fp as an integer) * 10^sh = |k|
      sh   == x10 - Len(fp) + j
  IN  /\ k < 0 <=> s[1] = MINUS
      /\ Len(body) <= MaxWidth
      /\ ip # <<>> /\ IsDigits(ip) /\ (Len(ip) > 1 => ip[1] # c0)
      /\ IsDigits(fp)
      /\ dot <= Len(mant) => fp # <<>> /\ fp[Len(fp)] # c0
      /\ (ePos <= Len(body)) <=> Regime(k, j) = "S"
      /\ ePos <= Len(body) =>
            /\ Len(ip) = 1 /\ ip[1] # c0
            /\ Len(expo) >= 3 /\ expo[1] \in {PLUS, MINUS} /\ IsDigits(Tail(expo))
            /\ Len(expo) > 3 => expo[2] # c0
            /\ x10 = DecExp(k, j)
      /\ IF sh >= 0 THEN StripZ(ip \o fp \o Zeros(sh)) = StripZ(DigitsOf(Abs(k)))
          ELSE StripZ(ip \o fp) = StripZ(DigitsOf(Abs(k)) \o Zeros(-sh))
      \* for the moderate magnitudes this is the plain decimal rendering
      /\ (j >= 0 /\ Regime(k, j) = "P") => s = Render(k, j)

\* 32-bit guard for the arithmetic cross-check below
Fits(a, j, e) == j <= 8 /\ e <= 8 /\ a < 1000000000 \div (2 * Pow10(e))

\* TEXT: the digits are the half-away-from-zero rounding of |x| * 10^d, i.e.
\* |x*10^d - m| <= 1/2 and a tie goes up (checked in integers where they fit)
TextRoundLaw == Formatting =>
  \A kj \in Nums :
    LET P == FmtParams(fmt)
        e == P.a + P.b + (IF P.pct THEN 2 ELSE 0)
        a == Abs(kj[1])   j == kj[2]
        M == TextDigits(kj[1], j, fmt)
    IN  Fits(a, j, e) =>
          LET m == ValueOf(M)
              lhs == 2 * a * Pow10(e)          \* 2 * |x| * 10^e * 10^j
              rhs == 2 * m * Pow10(j)
          IN  /\ Abs(lhs - rhs) <= Pow10(j)
              /\ Abs(lhs - rhs) = Pow10(j) => rhs > lhs

\* TEXT: the shape the format asks for, and the characters read back as the
\* rounded number
TextShapeLaw == Formatting =>
  \A kj \in Nums :
    LET r == TextOf(kj[1], kj[2], fmt)
        P == FmtParams(fmt)
    IN  r # Unjudged =>
          LET out  == r[2]
              neg  == out # <<>> /\ out[1] = MINUS
              o1   == IF neg THEN Tail(out) ELSE out
              o2   == IF P.pct THEN SubSeq(o1, 1, Len(o1) - 1) ELSE o1
              dot  == DotAt(o2)
              ipg  == SubSeq(o2, 1, dot - 1)
              ip   == SelectSeq(ipg, LAMBDA c : c # COMMA)
              fp   == SubSeq(o2, dot + 1, Len(o2))
          IN  /\ neg <=> kj[1] < 0
              /\ P.pct => out[Len(out)] = PCT
              /\ (dot <= Len(o2)) <=> P.dot
              /\ Len(ip) >= P.z /\ (Len(ip) > P.z => ip[1] # c0)
              /\ Len(fp) >= P.a /\ Len(fp) <= P.a + P.b
              /\ (Len(fp) > P.a => fp[Len(fp)] # c0)
              /\ \A i \in 1..Len(ipg) :
                   (ipg[i] = COMMA) <=> (P.g /\ (Len(ipg) - i + 1) % 4 = 0)
              /\ \A i \in 1..Len(ip) : ip[i] \in c0..(c0 + 9)
              /\ StripZ(ip \o fp \o Zeros(P.a + P.b - Len(fp)))
                   = StripZ(TextDigits(kj[1], kj[2], fmt))

-----------------------------------------------------------------------------
(* test-vector export: an "invariant" that is always TRUE and prints.       *)
(* To keep the vectors small a result is printed without its tag:           *)
(*   a text as its codes (all >= 1), #VALUE! as <<0>>, unjudged as <<-1>>;  *)
(*   a FIND answer as the set of allowed positions, 0 = #VALUE!, -1 =       *)
(*   unjudged; a logical as TRUE/FALSE.  Tables over Pos are printed as     *)
(*   sequences in the order of Pos (an interval, its bounds are exported).  *)

ASSUME \E lo \in Pos, hi \in Pos : Pos = lo..hi
PosLo == SetMin(Pos)
NPos  == Cardinality(Pos)
PosAt(i) == PosLo + i - 1

EncT(v) == IF v = Unjudged THEN <<-1>> ELSE IF IsErr(v) THEN <<0>> ELSE v[2]
EncN(v) == IF v = Unjudged THEN -1 ELSE IF IsErr(v) THEN 0 ELSE v[2]

ExportSlicing ==
  [kind    |-> "slice",
   src     |-> src,
   s       |-> s,
   pos     |-> <<PosLo, PosLo + NPos - 1>>,
   \* every result below for a position or count n >= 0 is also the result
   \* for n + f/10, f in tenths (LeftQ, RightQ, MidQ, ReplaceQ, FindAllowedQ)
   tenths  |-> Tenths,
   len     |-> LenF(s)[2],
   left    |-> [i \in 1..NPos |-> EncT(Left(s, PosAt(i)))],
   right   |-> [i \in 1..NPos |-> EncT(Right(s, PosAt(i)))],
   mid     |-> [i \in 1..NPos |-> [c \in 1..NPos |-> EncT(Mid(s, PosAt(i), PosAt(c)))]],
   replace |-> {[t |-> t,
                 r |-> [i \in 1..NPos |-> [c \in 1..NPos |->
                          EncT(Replace(s, PosAt(i), PosAt(c), t))]]]
                  : t \in NewTexts},
   find    |-> {[f |-> f,
                 r |-> [i \in 1..NPos |-> {EncN(a) : a \in FindAllowed(f, s, PosAt(i))}]]
                  : f \in FindTexts(s)},
   \* nth[i] is SUBSTITUTE(s, o, t, i - 1): instance 0 (unjudged) first
   subst   |-> {[o |-> o, t |-> t, all |-> EncT(SubstituteAll(s, o, t)),
                 nth |-> [i \in 1..(Occurrences(s, o) + 2) |->
                            EncT(SubstituteNth(s, o, t, i - 1))]]
                  : o \in FindTexts(s), t \in NewTexts},
   concat  |-> {[t |-> t, r |-> EncT(Concatenate(<<T(s), T(t)>>)),
                 r3 |-> EncT(Concatenate(<<T(s), T(t), T(s)>>))] : t \in NewTexts},
   exact   |-> {[t |-> t, r |-> Exact(s, t)[2]]
                  : t \in NewTexts \cup {s, Upper(s), Lower(s), Trim(s)}},
   trim    |-> Trim(s),
   upper   |-> Upper(s),
   lower   |-> Lower(s)]

ExportText ==
  [kind |-> "text", fmt |-> fmt,
   r |-> {[k |-> kj[1], j |-> kj[2], r |-> EncT(TextOf(kj[1], kj[2], fmt))] : kj \in Nums}]

Export ==
  IF Slicing THEN PrintT(ToJson(ExportSlicing))
  \* a number whose rendering is not judged: the harness only checks that the
  \* functions agree with each other on it
  ELSE IF src[1] = "U" THEN PrintT(ToJson([kind |-> "number", src |-> src]))
  ELSE IF Formatting THEN PrintT(ToJson(ExportText))
  ELSE PrintT(ToJson([kind |-> "prefix", fmt |-> fmt]))
=============================================================================
