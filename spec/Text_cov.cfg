CONSTANTS
  Alphabet <- MCAlphabet
  MaxLen <- MCMaxLen
  Seeds <- MCSeeds
  Pos <- MCPos
  NewTexts <- MCNewTexts
  FindLen <- MCFindLen
  Nums <- MCNums
  FmtMax <- MCFmtMax
SPECIFICATION Spec
INVARIANT TypeOK
