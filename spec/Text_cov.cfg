CONSTANTS
  Alphabet <- MCAlphabet
  MaxLen <- MCMaxLen
  Seeds <- MCSeeds
  Pos <- MCPos
  Tenths <- MCTenths
  NewTexts <- MCNewTexts
  FindLen <- MCFindLen
  Nums <- MCNums
  Scaled <- MCScaled
  ScaleJ <- MCScaleJ
  FmtMax <- MCFmtMax
SPECIFICATION Spec
INVARIANT TypeOK
