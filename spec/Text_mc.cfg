CONSTANTS
  Alphabet <- MCAlphabet
  MaxLen <- MCMaxLen
  Seeds <- MCSeeds
  Pos <- MCPos
  Tenths <- MCTenths
  NewTexts <- MCNewTexts
  FindLen <- MCFindLen
  Nums <- MCNums
  Scaled <- MCScaled
  ScaleJ <- MCScaleJ
  FmtMax <- MCFmtMax
SPECIFICATION Spec
INVARIANT TypeOK
INVARIANT SplitLaw
INVARIANT RightLaw
INVARIANT MidLaw
INVARIANT TruncLaw
INVARIANT ReplaceLaw
INVARIANT FindLaw
INVARIANT SubstLaw
INVARIANT SubstOverlapLaw
INVARIANT SubstEmptyLaw
INVARIANT ConcatLaw
INVARIANT TrimLaw
INVARIANT IdemLaw
INVARIANT ExactLaw
INVARIANT RenderLaw
INVARIANT TextRoundLaw
INVARIANT TextShapeLaw
INVARIANT Export
