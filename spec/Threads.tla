------------------------------ MODULE Threads ------------------------------
(***************************************************************************)
(* C07 -- two threads, each evaluating its own compiled workbook, stepping *)
(* at the granularity at which the code touches the two module level       *)
(* singletons:                                                             *)
(*   iterative_eval_tracker.ns : iteration_number, iterations, tolerance,  *)
(*                               todo, computed                            *)
(*   in_array_formula_context.ns : _ctx_address, ctx_addresses (a stack)   *)
(* Both are threading.local() in the code: ns[t] per thread.  The constant *)
(* SHARED collapses them into one namespace (what replacing                *)
(* threading.local() by plain attributes would do).  TLC shows Isolation   *)
(* for SHARED = FALSE over ALL interleavings of the micro steps and finds  *)
(* a counterexample for SHARED = TRUE (the non-vacuity witness).           *)
(*                                                                         *)
(* Workloads (one per thread):                                             *)
(*  "iter"  : iterative evaluate of a self referencing cell x = x/2 + b    *)
(*            (numbers scaled by 2^16) with its own (iterations, tol)      *)
(*  "array" : evaluation of a CSE array formula: the result is fitted to   *)
(*            the shape of the context address on top of the stack         *)
(*  "plain" : a two cell chain in non-iterative mode                       *)
(*  "ref"   : a formula x = d + CELL("contents", OFFSET(..)): its first    *)
(*            evaluation loads CELL (apply_meta stores the name space of   *)
(*            the formula in the metadata of the library function, which   *)
(*            every workbook and thread shares), evaluates the formula     *)
(*            cell d, then calls CELL, which reads a cell through the      *)
(*            evaluator of a name space                                    *)
(* Every formula evaluation pushes its context (None for ordinary cells)   *)
(* on the context stack and pops it when done, as eval_func does.          *)
(*                                                                         *)
(* meta is the 'name_space' entry of the metadata of a library function:   *)
(* one per process whatever SHARED says.  calling[t] is the per-thread     *)
(* stack of calling name spaces kept by refs_wrapper.  The constant        *)
(* METAREAD is the code before the repair D61: the callee takes the        *)
(* evaluator from meta instead of the top of calling[t]; TLC must find an  *)
(* Isolation counterexample for it.                                        *)
(*                                                                         *)
(*  "load"  : reading a workbook file.  ExcelOpxWrapper.load replaces      *)
(*            openpyxl's from_excel for the time of the read with          *)
(*            mock.patch, which saves the current function, installs the   *)
(*            wrapper's and restores the saved one afterwards: `patched`   *)
(*            is process wide (0 = openpyxl's own function, which turns a  *)
(*            date formatted cell into a datetime; t = installed by thread *)
(*            t).  Loads take turns through a module level lock.  The      *)
(*            constant NOLOCK is the code before the repair D69: TLC must  *)
(*            find an Isolation counterexample (one thread restores the    *)
(*            original while the other is still reading) and a violation   *)
(*            of Unpatched (the function stays patched for ever).          *)
(***************************************************************************)
EXTENDS Naturals, Integers, Sequences, FiniteSets, TLC, Json

CONSTANTS Thr,        \* thread ids, e.g. {1, 2}
          Work,       \* [Thr -> record] workload of each thread
          SHARED,     \* BOOLEAN
          METAREAD,   \* BOOLEAN: callees read the shared function metadata (D61)
          NOLOCK      \* BOOLEAN: loads do not take turns (the code before D69)

VARIABLES pc, loc, trk, ctx, result, meta, calling,
          patched,    \* who installed the from_excel in force (0 = openpyxl's own)
          lock,       \* holder of the load lock (0 = free)
          saved       \* [Thr -> what mock.patch will restore]
gl == <<patched, lock, saved>>
vars == <<pc, loc, trk, ctx, result, meta, calling, patched, lock, saved>>

NS(t) == IF SHARED THEN 0 ELSE t          \* which namespace thread t uses
Spaces == IF SHARED THEN {0} ELSE Thr

Abs(i) == IF i < 0 THEN -i ELSE i
NoCtx == <<0, 0>>                          \* context address None

TrkInit == [iter |-> 0, n |-> 100, tol |-> 66, todo |-> {}, computed |-> {}]
CtxInit == [pend |-> NoCtx, stack |-> <<NoCtx>>]

Init ==
  /\ pc = [t \in Thr |-> "start"]
  /\ loc = [t \in Thr |-> [val |-> Work[t].x0, prev |-> -1, wip |-> FALSE,
                           v1 |-> 0, v2 |-> 0, shape |-> NoCtx]]
  /\ trk = [k \in Spaces |-> TrkInit]
  /\ ctx = [k \in Spaces |-> CtxInit]
  /\ result = [t \in Thr |-> <<>>]
  /\ meta = 0                              \* nobody has loaded the function yet
  /\ calling = [t \in Thr |-> <<>>]
  /\ patched = 0 /\ lock = 0 /\ saved = [t \in Thr |-> 0]

\* in_array_formula_context(addr).__enter__ / __exit__ / ctx_address
Push(k, addr) == [ctx EXCEPT ![k].stack = Append(@, addr)]
CtxCall(t, addr) == ctx' = [ctx EXCEPT ![NS(t)].pend = addr]
CtxEnter(t) == ctx' = [ctx EXCEPT ![NS(t)].stack = Append(@, ctx[NS(t)].pend),
                                  ![NS(t)].pend = NoCtx]
CtxExit(t) == ctx' = [ctx EXCEPT ![NS(t)].stack = SubSeq(@, 1, Len(@) - 1)]
Top(t) == ctx[NS(t)].stack[Len(ctx[NS(t)].stack)]

Goto(t, l) == pc' = [pc EXCEPT ![t] = l]

(* ---------------- "iter" ---------------- *)
IterStep(t) ==
  LET w == Work[t]  k == NS(t)  me == <<t, "x">> IN
  \/ /\ pc[t] = "start" /\ w.kind = "iter"          \* tracker(iterations, tolerance)
     /\ trk' = [trk EXCEPT ![k].iter = 0, ![k].n = w.n, ![k].tol = w.tol]
     /\ Goto(t, "pass") /\ UNCHANGED <<loc, ctx, result, meta, calling>>
  \/ /\ pc[t] = "pass"                              \* inc_iteration_number
     /\ trk' = [trk EXCEPT ![k].iter = @ + 1, ![k].todo = {}, ![k].computed = {}]
     /\ Goto(t, "need") /\ UNCHANGED <<loc, ctx, result, meta, calling>>
  \/ /\ pc[t] = "need"                              \* needs_calc / start_calcs
     /\ IF me \in trk[k].computed
        THEN Goto(t, "done?") /\ UNCHANGED loc
        ELSE /\ loc' = [loc EXCEPT ![t].wip = TRUE, ![t].prev = loc[t].val]
             /\ Goto(t, "ctxcall")
     /\ UNCHANGED <<trk, ctx, result, meta, calling>>
  \/ /\ pc[t] = "ctxcall" /\ CtxCall(t, NoCtx)
     /\ Goto(t, "ctxenter") /\ UNCHANGED <<loc, trk, result, meta, calling>>
  \/ /\ pc[t] = "ctxenter" /\ CtxEnter(t)
     /\ Goto(t, "compute") /\ UNCHANGED <<loc, trk, result, meta, calling>>
  \/ /\ pc[t] = "compute"                           \* the lambda: reads itself (wip -> prev)
     /\ loc' = [loc EXCEPT ![t].v1 = (IF loc[t].prev < 0 THEN 0 ELSE loc[t].prev) \div 2 + w.b,
                           ![t].shape = Top(t)]
     /\ Goto(t, "ctxexit") /\ UNCHANGED <<trk, ctx, result, meta, calling>>
  \/ /\ pc[t] = "ctxexit" /\ CtxExit(t)
     /\ Goto(t, "set") /\ UNCHANGED <<loc, trk, result, meta, calling>>
  \/ /\ pc[t] = "set"                               \* value setter
     /\ loc' = [loc EXCEPT ![t].val = loc[t].v1, ![t].wip = FALSE]
     /\ trk' = [trk EXCEPT ![k].computed = @ \cup {me},
                           ![k].todo = IF loc[t].prev >= 0 /\ Abs(loc[t].v1 - loc[t].prev) <= trk[k].tol
                                       THEN @ ELSE @ \cup {me}]
     /\ Goto(t, "done?") /\ UNCHANGED <<ctx, result, meta, calling>>
  \/ /\ pc[t] = "done?"                             \* progress_tracker.done
     /\ IF trk[k].iter >= trk[k].n \/ trk[k].todo = {}
        THEN /\ result' = [result EXCEPT ![t] = <<loc[t].val, trk[k].iter>>]
             /\ Goto(t, "end")
        ELSE /\ Goto(t, "pass") /\ UNCHANGED result
     /\ UNCHANGED <<loc, trk, ctx, meta, calling>>

(* ---------------- "array" ---------------- *)
\* value is an h x w array; fit_to_range trims / repeats it to the shape of
\* the context address; the observable is the resulting shape
Fit(shape, target) ==
  IF target = NoCtx THEN shape ELSE target

ArrayStep(t) ==
  LET w == Work[t] IN
  \/ /\ pc[t] = "start" /\ w.kind = "array" /\ CtxCall(t, w.target)
     /\ Goto(t, "aenter") /\ UNCHANGED <<loc, trk, result, meta, calling>>
  \/ /\ pc[t] = "aenter" /\ CtxEnter(t)
     /\ Goto(t, "afit") /\ UNCHANGED <<loc, trk, result, meta, calling>>
  \/ /\ pc[t] = "afit"
     /\ loc' = [loc EXCEPT ![t].shape = Fit(w.shape, Top(t))]
     /\ Goto(t, "aexit") /\ UNCHANGED <<trk, ctx, result, meta, calling>>
  \/ /\ pc[t] = "aexit" /\ CtxExit(t)
     /\ result' = [result EXCEPT ![t] = loc[t].shape]
     /\ Goto(t, "end") /\ UNCHANGED <<loc, trk, meta, calling>>

(* ---------------- "plain" ---------------- *)
PlainStep(t) ==
  LET w == Work[t] IN
  \/ /\ pc[t] = "start" /\ w.kind = "plain" /\ CtxCall(t, NoCtx)
     /\ Goto(t, "p2enter") /\ UNCHANGED <<loc, trk, result, meta, calling>>
  \/ /\ pc[t] = "p2enter" /\ CtxEnter(t)              \* outer cell c2 begins
     /\ Goto(t, "p1call") /\ UNCHANGED <<loc, trk, result, meta, calling>>
  \/ /\ pc[t] = "p1call" /\ CtxCall(t, NoCtx)        \* it reads c1: nested evaluation
     /\ Goto(t, "p1enter") /\ UNCHANGED <<loc, trk, result, meta, calling>>
  \/ /\ pc[t] = "p1enter" /\ CtxEnter(t)
     /\ Goto(t, "p1calc") /\ UNCHANGED <<loc, trk, result, meta, calling>>
  \/ /\ pc[t] = "p1calc"
     /\ loc' = [loc EXCEPT ![t].v1 = w.x0 + 1, ![t].shape = Top(t)]
     /\ Goto(t, "p1exit") /\ UNCHANGED <<trk, ctx, result, meta, calling>>
  \/ /\ pc[t] = "p1exit" /\ CtxExit(t)
     /\ Goto(t, "p2calc") /\ UNCHANGED <<loc, trk, result, meta, calling>>
  \/ /\ pc[t] = "p2calc"
     /\ loc' = [loc EXCEPT ![t].v2 = loc[t].v1 + 1,
                           ![t].shape = IF loc[t].shape = NoCtx THEN Top(t) ELSE loc[t].shape]
     /\ Goto(t, "p2exit") /\ UNCHANGED <<trk, ctx, result, meta, calling>>
  \/ /\ pc[t] = "p2exit" /\ CtxExit(t)
     /\ result' = [result EXCEPT ![t] = <<loc[t].v2, loc[t].shape>>]
     /\ Goto(t, "end") /\ UNCHANGED <<loc, trk, meta, calling>>

(* ---------------- "ref" ---------------- *)
\* the cells of workbook k hold Work[k].x0; reading "through name space k"
\* returns the value of workbook k
RefStep(t) ==
  LET w == Work[t] IN
  \/ /\ pc[t] = "start" /\ w.kind = "ref" /\ CtxCall(t, NoCtx)
     /\ Goto(t, "renter") /\ UNCHANGED <<loc, trk, result, meta, calling>>
  \/ /\ pc[t] = "renter" /\ CtxEnter(t)
     /\ Goto(t, "rload") /\ UNCHANGED <<loc, trk, result, meta, calling>>
  \/ /\ pc[t] = "rload"                            \* apply_meta: meta['name_space'] = ns
     /\ meta' = t
     /\ Goto(t, "rdcall") /\ UNCHANGED <<loc, trk, ctx, result, calling>>
  \/ /\ pc[t] = "rdcall" /\ CtxCall(t, NoCtx)      \* the formula reads cell d first
     /\ Goto(t, "rdenter") /\ UNCHANGED <<loc, trk, result, meta, calling>>
  \/ /\ pc[t] = "rdenter" /\ CtxEnter(t)
     /\ Goto(t, "rdcalc") /\ UNCHANGED <<loc, trk, result, meta, calling>>
  \/ /\ pc[t] = "rdcalc"
     /\ loc' = [loc EXCEPT ![t].v1 = w.x0 + 1, ![t].shape = Top(t)]
     /\ Goto(t, "rdexit") /\ UNCHANGED <<trk, ctx, result, meta, calling>>
  \/ /\ pc[t] = "rdexit" /\ CtxExit(t)
     /\ Goto(t, "rpush") /\ UNCHANGED <<loc, trk, result, meta, calling>>
  \/ /\ pc[t] = "rpush"                            \* refs_wrapper: push the caller's ns
     /\ calling' = [calling EXCEPT ![t] = Append(@, t)]
     /\ Goto(t, "rcall") /\ UNCHANGED <<loc, trk, ctx, result, meta>>
  \/ /\ pc[t] = "rcall"                            \* CELL reads a cell through a name space
     /\ LET k == IF METAREAD THEN meta ELSE calling[t][Len(calling[t])]
        IN  loc' = [loc EXCEPT ![t].v2 = loc[t].v1 + Work[k].x0]
     /\ Goto(t, "rpop") /\ UNCHANGED <<trk, ctx, result, meta, calling>>
  \/ /\ pc[t] = "rpop"
     /\ calling' = [calling EXCEPT ![t] = SubSeq(@, 1, Len(@) - 1)]
     /\ Goto(t, "rexit") /\ UNCHANGED <<loc, trk, ctx, result, meta>>
  \/ /\ pc[t] = "rexit" /\ CtxExit(t)
     /\ result' = [result EXCEPT ![t] = <<loc[t].v2, loc[t].shape>>]
     /\ Goto(t, "end") /\ UNCHANGED <<loc, trk, meta, calling>>

(* ---------------- "load" ---------------- *)
\* the workbook has Work[t].cells date formatted cells; v2 counts the cells
\* read so far, v1 those which came back as numbers
LoadStep(t) ==
  LET w == Work[t] IN
  \/ /\ pc[t] = "start" /\ w.kind = "load"          \* with FROM_EXCEL_LOCK
     /\ NOLOCK \/ lock = 0
     /\ lock' = IF NOLOCK THEN lock ELSE t
     /\ Goto(t, "lpatch") /\ UNCHANGED <<loc, trk, ctx, result, meta, calling, patched, saved>>
  \/ /\ pc[t] = "lpatch"                            \* mock.patch.__enter__
     /\ saved' = [saved EXCEPT ![t] = patched]
     /\ patched' = t
     /\ Goto(t, "lread") /\ UNCHANGED <<loc, trk, ctx, result, meta, calling, lock>>
  \/ /\ pc[t] = "lread"                             \* openpyxl parses one cell
     /\ loc' = [loc EXCEPT ![t].v1 = @ + (IF patched # 0 THEN 1 ELSE 0), ![t].v2 = @ + 1]
     /\ Goto(t, IF loc[t].v2 + 1 >= w.cells THEN "lrestore" ELSE "lread")
     /\ UNCHANGED <<trk, ctx, result, meta, calling, gl>>
  \/ /\ pc[t] = "lrestore"                          \* mock.patch.__exit__
     /\ patched' = saved[t]
     /\ Goto(t, "lrelease") /\ UNCHANGED <<loc, trk, ctx, result, meta, calling, lock, saved>>
  \/ /\ pc[t] = "lrelease"
     /\ lock' = IF NOLOCK THEN lock ELSE 0
     /\ result' = [result EXCEPT ![t] = <<loc[t].v1>>]
     /\ Goto(t, "end") /\ UNCHANGED <<loc, trk, ctx, meta, calling, patched, saved>>

Next == \E t \in Thr :
          \/ (IterStep(t) \/ ArrayStep(t) \/ PlainStep(t) \/ RefStep(t)) /\ UNCHANGED gl
          \/ LoadStep(t)
Spec == Init /\ [][Next]_vars

(* ---- what each workload returns when it runs alone ---- *)
RECURSIVE SoloIter(_, _, _, _, _, _)
SoloIter(x, prevx, k, n, tol, b) ==
  \* pass k has produced x from prevx; stop or run the next pass
  IF k >= n \/ (prevx >= 0 /\ Abs(x - prevx) <= tol) THEN <<x, k>>
  ELSE SoloIter(x \div 2 + b, x, k + 1, n, tol, b)

Solo(t) ==
  LET w == Work[t] IN
  CASE w.kind = "iter"  -> SoloIter(0 \div 2 + w.b, -1, 1, w.n, w.tol, w.b)
    [] w.kind = "array" -> w.target
    [] w.kind = "plain" -> <<w.x0 + 2, NoCtx>>
    [] w.kind = "ref"   -> <<2 * w.x0 + 1, NoCtx>>
    [] w.kind = "load"  -> <<w.cells>>

Isolation == \A t \in Thr : pc[t] = "end" => result[t] = Solo(t)
StackBalanced == (\A t \in Thr : pc[t] = "end") =>
                   \A k \in Spaces : ctx[k].stack = <<NoCtx>>
CallingBalanced == (\A t \in Thr : pc[t] = "end") => \A t \in Thr : calling[t] = <<>>
AllEnd == \A t \in Thr : pc[t] = "end"
\* when nobody is loading, openpyxl's own function is in force and the lock is free
Unpatched == (\A t \in Thr : pc[t] \in {"start", "end"}) => patched = 0 /\ lock = 0
\* at most one thread is between patch and restore (what the lock is for)
OneLoader == ~NOLOCK => Cardinality({t \in Thr : pc[t] \in {"lpatch", "lread", "lrestore", "lrelease"}}) <= 1

\* the solo results, for the harness (printed once, in the initial state)
ExportSolo == (\A t \in Thr : pc[t] = "start") =>
  PrintT(ToJson([solo |-> [t \in Thr |-> Solo(t)], work |-> Work]))
=============================================================================
