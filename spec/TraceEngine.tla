----------------------------- MODULE TraceEngine -----------------------------
(***************************************************************************)
(* Recorded executions of the real ExcelCompiler validated against the     *)
(* implementation-shaped Engine specification (refinement on workbooks     *)
(* larger than the exhaustively explored ones).  Each logged event is      *)
(* matched by the Engine action of the same name and arguments, and the    *)
(* successor state must equal the logged projection of the real object.    *)
(***************************************************************************)
EXTENDS Engine, TLCExt, IOUtils

Traces == JsonDeserialize(IOEnv.TRACE_FILE)

VARIABLES tid, l
tvars == <<vars, tid, l>>

SeqToSet(s) == {s[i] : i \in 1..Len(s)}
EdgeSet(s) == {<<s[i][1], s[i][2]>> : i \in 1..Len(s)}

TInit ==
  /\ tid \in 1..Len(Traces)
  /\ TLCSet(tid, FALSE)
  /\ l = 1
  /\ Init

Matches(e) ==
  /\ built' = SeqToSet(e.built)
  /\ \A x \in built' : cache'[x] = e.cache[x]
  /\ edges' = EdgeSet(e.edges)
  /\ changed' = e.changed
  /\ e.op = "evaluate" => ret' = e.ret2d

TNext ==
  /\ l <= Len(Traces[tid].events)
  /\ LET e == Traces[tid].events[l] IN
       /\ IF e.op = "evaluate" THEN Evaluate(e.n) ELSE SetValue(e.n, e.v)
       /\ Matches(e)
  /\ l' = l + 1
  /\ UNCHANGED tid

TSpec == TInit /\ [][TNext]_tvars

Done == l = Len(Traces[tid].events) + 1
MarkDone == Done => TLCSet(tid, TRUE)

Accepted ==
  LET bad == {t \in 1..Len(Traces) : TLCGet(t) # TRUE}
  IN  IF bad = {} THEN TRUE
      ELSE /\ PrintT(ToJson([rejected |-> bad]))
           /\ FALSE
=============================================================================
