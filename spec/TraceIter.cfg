SPECIFICATION Spec
INVARIANT Mark
POSTCONDITION Report
CHECK_DEADLOCK FALSE
