----------------------------- MODULE TraceIter -----------------------------
(***************************************************************************)
(* C06, code -> spec: one iterative evaluate(address, iterations=N,        *)
(* tolerance=tol) call of a cycles=True model as a sequence of the events  *)
(* the real code emits (guarded hooks + the tracker's pass counter):       *)
(*                                                                         *)
(*   pass            a new pass begins (inc_iteration_number)              *)
(*   begin c         the formula of cell c starts to be calculated         *)
(*   end c moved     ... and has returned; moved = its value differs from  *)
(*                   the value the cell held when the calculation began by *)
(*                   more than the tolerance, or it had none (computed by  *)
(*                   the recorder from the two values, exactly)            *)
(*   fail c          ... and has raised                                    *)
(*   return k todo   evaluate returns; k = the tracker's pass number,      *)
(*                   todo = the formula cells on the tracker's todo list   *)
(*                                                                         *)
(* This is the most general honest iteration: it says nothing about the    *)
(* order in which cells are calculated or how often, only                  *)
(*   PassBound      no pass begins after N passes                          *)
(*   HonestStop     evaluate returns before pass N only if no cell moved   *)
(*                  in the last pass                                       *)
(*   NoReentry      a cell whose calculation is in progress is not         *)
(*                  calculated again (it yields its previous value: that   *)
(*                  is what makes a circular reference terminate)          *)
(*   Nesting        begin / end / fail are properly nested, a pass begins  *)
(*                  and evaluate returns with nothing in progress          *)
(* and, implementation shaped (reported as spec drift, never a verdict),   *)
(*   OncePerPass    a cell is calculated at most once per pass             *)
(*   TodoIsMoved    the tracker's todo list holds exactly the cells which  *)
(*                  moved in the last pass                                 *)
(*   PassCount      the tracker's pass number is the number of passes      *)
(*                                                                         *)
(* Verdicts are total: every trace is consumed to its end or to the first  *)
(* violated clause, whose name and line are left in register tid.  Many    *)
(* traces are validated in one run (tid picks the trace).                  *)
(***************************************************************************)
EXTENDS Naturals, Sequences, FiniteSets, TLC, TLCExt, Json, IOUtils

Traces == JsonDeserialize(IOEnv.TRACE_FILE)

VARIABLES tid, l, k, stack, done, dirty, bad, drift
vars == <<tid, l, k, stack, done, dirty, bad, drift>>

Ev(t, i) == Traces[t].events[i]
N(t) == Traces[t].iterations
InStack(c) == \E i \in 1..Len(stack) : stack[i] = c
Top == stack[Len(stack)]
Pop == SubSeq(stack, 1, Len(stack) - 1)

Init ==
  /\ tid \in 1..Len(Traces)
  /\ TLCSet(tid, <<"incomplete", 0, "">>)
  /\ l = 1 /\ k = 0 /\ stack = <<>> /\ done = {} /\ dirty = {}
  /\ bad = "" /\ drift = ""

Fail(clause) == bad' = clause /\ UNCHANGED <<k, stack, done, dirty, drift>>
Drift(cond, clause) == drift' = IF drift = "" /\ cond THEN clause ELSE drift

Pass(e) ==
  /\ e.ev = "pass"
  /\ IF k >= N(tid) THEN Fail("PassBound")
     ELSE IF stack # <<>> THEN Fail("Nesting")
     ELSE /\ k' = k + 1 /\ done' = {} /\ dirty' = {}
          /\ UNCHANGED <<stack, bad, drift>>

Begin(e) ==
  /\ e.ev = "begin"
  /\ IF k = 0 THEN Fail("Nesting")
     ELSE IF InStack(e.c) THEN Fail("NoReentry")
     ELSE /\ stack' = Append(stack, e.c)
          /\ Drift(e.c \in done, "OncePerPass")
          /\ UNCHANGED <<k, done, dirty, bad>>

End(e) ==
  /\ e.ev = "end"
  /\ IF stack = <<>> THEN Fail("Nesting")
     ELSE IF Top # e.c THEN Fail("Nesting")
     ELSE /\ stack' = Pop
          /\ done' = done \cup {e.c}
          \* calculated again in the same pass: the last calculation decides
          /\ dirty' = IF e.moved THEN dirty \cup {e.c} ELSE dirty \ {e.c}
          /\ UNCHANGED <<k, bad, drift>>

Failed(e) ==
  /\ e.ev = "fail"
  /\ IF stack = <<>> THEN Fail("Nesting")
     ELSE IF Top # e.c THEN Fail("Nesting")
     ELSE stack' = Pop /\ UNCHANGED <<k, done, dirty, bad, drift>>

Return(e) ==
  /\ e.ev = "return"
  /\ IF stack # <<>> THEN Fail("Nesting")
     ELSE IF k > N(tid) THEN Fail("PassBound")
     ELSE IF k < N(tid) /\ dirty # {} THEN Fail("HonestStop")
     ELSE /\ Drift(e.k # k, "PassCount")
          /\ UNCHANGED <<k, stack, done, dirty, bad>>

\* an evaluate which raised: whatever was in progress is abandoned
Raised(e) ==
  /\ e.ev = "raised"
  /\ IF k > N(tid) THEN Fail("PassBound")
     ELSE stack' = <<>> /\ UNCHANGED <<k, done, dirty, bad, drift>>

Next ==
  /\ bad = ""
  /\ l <= Len(Traces[tid].events)
  /\ LET e == Ev(tid, l) IN
       Pass(e) \/ Begin(e) \/ End(e) \/ Failed(e) \/ Return(e) \/ Raised(e)
  /\ l' = l + 1
  /\ UNCHANGED tid

Spec == Init /\ [][Next]_vars

Done == l = Len(Traces[tid].events) + 1

\* todo list of the tracker against the cells which moved, at the return
TodoDrift ==
  IF Done /\ bad = "" /\ drift = "" /\ l > 1
  THEN LET e == Ev(tid, l - 1) IN
         IF e.ev = "return" /\ {e.todo[i] : i \in 1..Len(e.todo)} # dirty
         THEN "TodoIsMoved" ELSE ""
  ELSE drift

Mark ==
  TLCSet(tid, IF bad # "" THEN <<bad, l - 1, drift>>
              ELSE IF Done THEN <<"ok", l - 1, TodoDrift>>
              ELSE <<"incomplete", l - 1, drift>>)

Report ==
  PrintT(ToJson([verdicts |-> [t \in 1..Len(Traces) |-> TLCGet(t)]]))
=============================================================================
