SPECIFICATION Spec
INVARIANT InitCoherent
INVARIANT MarkDone
POSTCONDITION Accepted
CHECK_DEADLOCK FALSE
