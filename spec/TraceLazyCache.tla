--------------------------- MODULE TraceLazyCache ---------------------------
(***************************************************************************)
(* The most general correct cache discipline (layer 2 of DESIGN 1.2) as a  *)
(* trace specification.  State: the values a from-scratch compile gives    *)
(* for the current inputs (fresh, logged by the recorder after every call) *)
(* and the cache of the real object (projected after every call).          *)
(*                                                                         *)
(*   Evaluate(n)  may fill any entries, may drop any entries, but every    *)
(*                entry it leaves is the fresh value, n itself is filled   *)
(*                and the call returns fresh[n];                           *)
(*   SetValue(a,v) changes the inputs, hence fresh; it may drop any        *)
(*                entries and must not leave one that differs from the     *)
(*                new fresh value.                                         *)
(*                                                                         *)
(* Every correct refactoring of pycel's engine (over-invalidation, eager   *)
(* evaluation, another build order) is a behaviour of this specification;  *)
(* a stale entry is not.  Many recorded traces are validated in one run:   *)
(* tid picks the trace, register tid is set when its last line matched.    *)
(***************************************************************************)
EXTENDS Naturals, Sequences, TLC, TLCExt, Json, IOUtils

Traces == JsonDeserialize(IOEnv.TRACE_FILE)

VARIABLES tid, l, cache, fresh, ret
vars == <<tid, l, cache, fresh, ret>>

NoneV == <<"?">>

Ev(t, i) == Traces[t].events[i]

\* cache and fresh are records keyed by node name (JSON objects)
Coherent(c, f, formulaNodes) ==
  \A i \in 1..Len(formulaNodes) :
     LET x == formulaNodes[i] IN
       x \in DOMAIN c => (c[x] = NoneV \/ c[x] = f[x])

Init ==
  /\ tid \in 1..Len(Traces)
  /\ TLCSet(tid, FALSE)
  /\ l = 1
  /\ cache = Traces[tid].init.cache
  /\ fresh = Traces[tid].init.fresh
  /\ ret = NoneV

EvaluateStep(e) ==
  /\ e.op = "evaluate"
  /\ fresh' = fresh                       \* inputs untouched
  /\ e.fresh = fresh                      \* the recorder agrees
  /\ cache' = e.cache
  /\ ret' = e.ret
  /\ e.ret = fresh[e.n]                   \* RetOK
  /\ (e.n \in DOMAIN e.cache /\ e.isformula) => e.cache[e.n] = fresh[e.n]

SetValueStep(e) ==
  /\ e.op = "set_value"
  /\ fresh' = e.fresh
  /\ cache' = e.cache
  /\ ret' = NoneV

Next ==
  /\ l <= Len(Traces[tid].events)
  /\ LET e == Ev(tid, l) IN
       /\ EvaluateStep(e) \/ SetValueStep(e)
       /\ Coherent(e.cache, e.fresh, Traces[tid].formulas)
  /\ l' = l + 1
  /\ UNCHANGED tid

Spec == Init /\ [][Next]_vars

InitCoherent == l = 1 => Coherent(cache, fresh, Traces[tid].formulas)

Done == l = Len(Traces[tid].events) + 1
MarkDone == Done => TLCSet(tid, TRUE)

\* furthest line reached per trace is what the driver needs on rejection:
\* registers hold TRUE (accepted) or FALSE; the driver bisects rejected ids.
Accepted ==
  LET bad == {t \in 1..Len(Traces) : TLCGet(t) # TRUE}
  IN  IF bad = {} THEN TRUE
      ELSE /\ PrintT(ToJson([rejected |-> bad]))
           /\ FALSE
=============================================================================
