-------------------------------- MODULE Trim --------------------------------
(***************************************************************************)
(* C08 -- trim_graph(inputs, outputs) on top of the Engine model.          *)
(*                                                                         *)
(* New state: frozen (cells whose formula was removed: they keep the value *)
(* they had at trim time) and trim (<<>> before, <<I, O>> after the call). *)
(* Trim(I, O) is written like the code:                                    *)
(*   1. build the graph for the outputs (_gen_graph): the new cells have   *)
(*      their stored result or no value, nothing is calculated but ranges  *)
(*   2. walk the dependants of every input node -- and of the cells of an  *)
(*      input range, whether the range is a node of the graph or not --    *)
(*      over dep_graph edges: the needed cells                             *)
(*   3. walk the precedents of every output: a precedent that is neither   *)
(*      needed nor a range is frozen (and the walk stops there); a cell    *)
(*      without a value is calculated before its formula is dropped: "the  *)
(*      value it had at trim time" is the value of the cell in the sheet   *)
(*      at that time, whether some evaluate() had asked for it or not      *)
(*   5. every cell that is neither needed nor frozen is deleted from the   *)
(*      cell map (ranges that do not depend on an input are deleted too:   *)
(*      they are rebuilt from their frozen members on demand); the         *)
(*      dependency graph is NOT trimmed.                                   *)
(* Trim is enabled in every state before the trim: right after the load,   *)
(* after evaluations of any nodes (outputs or not) and after assignments,  *)
(* with outputs (and precedents of outputs) that were never evaluated.     *)
(* After Trim only the inputs are assigned and only the outputs evaluated. *)
(* Property (TrimEquiv): every value an output evaluation returns is       *)
(* Fresh(output, inp) of the UNTRIMMED sheet.                              *)
(***************************************************************************)
EXTENDS Engine

CONSTANTS TrimChoices   \* set of <<I, O>>: I, O sets of nodes

VARIABLES frozen, trim
tvars == <<vars, frozen, trim>>
tview == <<view, frozen, trim>>

(* precedents / ancestors that are still followed: a frozen cell has none *)
PrecF(n, fz) == IF n \in fz THEN {} ELSE PrecMap[n]

RECURSIVE AncF(_, _)
AncF(n, fz) == {n} \cup UNION {AncF(p, fz) : p \in PrecF(n, fz)}

RECURSIVE NeededF(_, _, _)
NeededF(x, c, fz) == IF ~NoVal(c[x]) \/ x \in fz THEN {}
                     ELSE {x} \cup UNION {NeededF(p, c, fz) : p \in PrecMap[x]}

(* _gen_graph + _process_gen_graph for a set of seeds, no _evaluate *)
BuildStep(st, seeds, fz) ==
  LET B  == (UNION {AncF(n, fz) : n \in seeds}) \ st.built
      c0 == [x \in Nodes |->
               IF x \notin B THEN st.cache[x]
               ELSE IF x \in Inputs THEN inp[x]
               ELSE IF x \in Formulas /\ Src = "Stored" /\ ~changed THEN StoredRead(x)
               ELSE IF x \in Formulas /\ ~changed THEN UnkV    \* nothing stored: "read as None"
               ELSE NoneV]
      need == UNION {NeededF(r, c0, fz) : r \in B \cap (Ranges \cup Aliases)}
  IN  [built |-> st.built \cup B, cache |-> FillLevels(c0, need, 1),
       edges |-> st.edges \cup NewEdges(B)]

\* the nodes an evaluate(n) has to build: n itself when it is not in the cell
\* map, else the missing nodes (a trimmed range) that the descent through
\* uncomputed cells runs into
RECURSIVE MissingNeeded(_, _, _)
MissingNeeded(x, st, fz) ==
  IF x \notin st.built THEN {x}
  ELSE IF ~NoVal(st.cache[x]) \/ x \in fz THEN {}
  ELSE UNION {MissingNeeded(q, st, fz) : q \in PrecMap[x]}

EvalStepF(st, n, fz) ==
  LET s1 == BuildStep(st, MissingNeeded(n, st, fz), fz)
  IN  [s1 EXCEPT !.cache = FillLevels(s1.cache, NeededF(n, s1.cache, fz), 1)]

Cur == [built |-> built, cache |-> cache, edges |-> edges]

TEvaluate(n) ==
  /\ trim # <<>> => n \in trim[2]
  /\ LET st == EvalStepF(Cur, n, frozen)
     IN  /\ built' = st.built
         /\ edges' = st.edges
         /\ cache' = st.cache
         /\ ret' = st.cache[n]
  /\ act' = [op |-> "evaluate", n |-> n]
  /\ UNCHANGED <<inp, changed, frozen, trim>>

\* a range given by its corners: the cells of such an input are inputs, also
\* when no formula reads the range as a range (then it is no node of the graph)
PlainRange(x) == x \in Ranges /\ Def[x].kind = "Range"

InputCells(I) == (I \cap Inputs) \cup
                 UNION {Members(r) \cap Inputs : r \in {x \in I : PlainRange(x)}}

TSetValue(a, v) ==
  /\ trim # <<>> => a \in InputCells(trim[1])
  /\ SetValue(a, v)
  /\ UNCHANGED <<frozen, trim>>

(* ---- the trim itself ---- *)
RECURSIVE Dependants(_, _, _)
Dependants(front, done, e) ==
  LET nxt == {y \in Nodes : y \notin done /\ \E x \in front : <<x, y>> \in e}
  IN  IF nxt = {} THEN done ELSE Dependants(nxt, done \cup nxt, e)

IsRangeAddr(x) == x \in Ranges \cup Aliases      \* ':' in the address

\* children reached by walk_precedents from the outputs; the walk goes
\* through outputs, needed cells and ranges, and stops at anything else
RECURSIVE Reached(_, _, _, _)
Reached(front, seen, needed0, fz) ==
  LET kids == UNION {PrecF(x, fz) : x \in front} \ seen
      thru == {k \in kids : k \in needed0 \/ IsRangeAddr(k)}
  IN  IF kids = {} THEN seen
      ELSE Reached(thru, seen \cup kids, needed0, fz)

InGraph(x, e) == x \in Formulas \cup Ranges \cup Aliases
                 \/ \E p \in e : p[1] = x \/ p[2] = x

Trim(I, O) ==
  /\ trim = <<>>
  /\ LET st     == BuildStep(Cur, O, frozen)      \* builds, does not calculate the outputs
         starts == I \cup UNION {Members(r) : r \in {x \in I : PlainRange(x)}}
         needed0 == Dependants(starts \cap st.built, {}, st.edges) \cup O
         kids   == Reached(O, {}, needed0, frozen)
         newfz  == {k \in kids : k \notin needed0 /\ ~IsRangeAddr(k)}
         \* the cell mapping an unbounded range onto its bounded range is kept:
         \* a reloaded model needs it to resolve the range
         \* and so is the range of an array formula (nothing else holds its formula)
         keep   == needed0 \cup newfz \cup (kids \cap Aliases)
                     \cup {k \in kids \cap Ranges : Def[k].kind = "CSE"}
         \* a cell which has no value yet is calculated before it is frozen
         c1     == FillLevels(st.cache,
                              UNION {NeededF(k, st.cache, frozen) : k \in newfz \cap Formulas}, 1)
     IN  \* an input is a node of the graph (the code raises otherwise), or a
         \* range nobody reads as a range: the cells of it which are built count
         /\ \A i \in I : /\ i \in st.built \/ PlainRange(i)
                         /\ InGraph(i, st.edges) \/ i \in O
         /\ built' = st.built \cap keep
         /\ cache' = [x \in Nodes |-> IF x \in st.built \cap keep THEN c1[x] ELSE NoneV]
         /\ edges' = st.edges
         /\ frozen' = frozen \cup (newfz \cap Formulas)
  /\ trim' = <<I, O>>
  /\ ret' = NoneV
  /\ act' = [op |-> "trim", i |-> I, o |-> O]
  /\ UNCHANGED <<inp, changed>>

TInit == Init /\ frozen = {} /\ trim = <<>>

TNext == \/ \E n \in Nodes : TEvaluate(n)
         \/ \E a \in Settable, v \in Pool : TSetValue(a, v)
         \/ \E c \in TrimChoices : Trim(c[1], c[2])

TSpec == TInit /\ [][TNext]_tvars

(* the property *)
TrimEquiv == act.op = "evaluate" => ret = Fresh(act.n, inp)
CoherentT == LET f == FreshAll(inp) IN
  \A n \in built \ Inputs : ~NoVal(cache[n]) => cache[n] = f[n]
InputsMirrorT == \A a \in built \cap Inputs : cache[a] = inp[a]
FrozenHaveValues == \A x \in frozen : x \in built /\ ~NoVal(cache[x])

TStateJson(i, b, c, e, ch, fz, tr) ==
  [inp |-> i, built |-> b, cache |-> [x \in b |-> c[x]], edges |-> e, changed |-> ch,
   frozen |-> fz, trimmed |-> tr # <<>>,
   trimio |-> IF tr = <<>> THEN <<{}, {}>> ELSE tr]
TPrintInit == act.op = "init" =>
  PrintT(ToJson([init |-> TStateJson(inp, built, cache, edges, changed, frozen, trim)]))
TPrintEdge ==
  PrintT(ToJson([from |-> TStateJson(inp, built, cache, edges, changed, frozen, trim),
                 act  |-> act',
                 ret  |-> ret',
                 to   |-> TStateJson(inp', built', cache', edges', changed', frozen', trim')]))
=============================================================================
