------------------------------ MODULE Validate ------------------------------
(***************************************************************************)
(* C12 -- validate_calcs on a workbook with stored results, over the       *)
(* Engine model (Src = "Stored").  The work list is modelled as written:   *)
(*   pop an address; _gen_graph it; if it is a formula cell remember its   *)
(*   value, clear it, evaluate it from the CURRENT values of its           *)
(*   precedents and compare with close_enough; push its needed addresses.  *)
(* An exception while handling an address (building a new range over a     *)
(* broken uncomputed cell, or the cell / an uncomputed precedent it has to *)
(* evaluate is broken) is recorded; the address is still marked verified   *)
(* and its needed addresses are still pushed.                              *)
(* A workbook with iterative calculation switched on (calculation.iterate, *)
(* variable iterate) is evaluated differently: nothing is "already         *)
(* computed", every evaluate() recalculates the whole precedent cone of    *)
(* the cell from the inputs and overwrites what the cone held.  What is    *)
(* compared there is the result the FILE stores for the cell (StoredP)     *)
(* with the recalculated one: the value the cell happens to hold when it   *)
(* comes off the work list may already be a recalculated one.              *)
(* What the reader hands over for a stored result (Engine.StoredRead): the *)
(* empty text is stored as <v></v> and comes back as "no value" (UnkV); the *)
(* cell is calculated when a dependant needs it.  The result the FILE      *)
(* stores for such a cell is still the empty text, and that is what the    *)
(* recalculated value is compared with.                                    *)
(* Choices made in Init: the perturbed cell p and its stored value pv      *)
(* (or no perturbation), the output list, and a configuration: the formula *)
(* cells whose evaluation raises, the calculation mode, the tolerance      *)
(* (-1 = None, the default: relative closeness; 0, 1, 2 .. = an absolute   *)
(* tolerance, where 0 asks for equal numbers).                             *)
(* "Altered by more than the tolerance" (Altered): a tolerance bounds the  *)
(* distance of two NUMBERS.  A logical, a text, an error value are not     *)
(* numbers (=TRUE=1 is FALSE), so a stored result which is replaced by a   *)
(* value of another kind -- TRUE by 1, 0 by FALSE, a text by the empty     *)
(* text -- or by another value of the same non-numeric kind is altered     *)
(* whatever the tolerance is.                                              *)
(* Property (checked when the work list is empty):                         *)
(*   no perturbation, nothing broken  => empty report                      *)
(*   p reachable                      => p reported with (stored, recomputed)*)
(*   every reported cell is p or depends on p                              *)
(*   every reached cell that cannot be evaluated is under exceptions       *)
(***************************************************************************)
EXTENDS Engine

CONSTANTS OutputLists,   \* set of sequences of nodes (output_addrs)
          Perturbs,      \* set of <<cell, value>> stored-result alterations
          Configs        \* set of <<broken, iterate, tol>> (chosen in Init):
                         \*   broken   formula cells whose evaluation raises
                         \*   iterate  BOOLEAN: the workbook calculates iteratively
                         \*   tol      -1 (= None), 0, 1, 2, ...

VARIABLES p, outs, tol, broken, iterate, todo, verified, mism, excs
vvars == <<vars, p, outs, tol, broken, iterate, todo, verified, mism, excs>>

NoP == <<"", NoneV>>

\* the result the file stores for a formula cell, and what the reader makes of it
StoredP(x) == IF p # NoP /\ x = p[1] THEN p[2] ELSE Stored(x)
ReadP(x)   == IF StoredP(x) = VS("") THEN UnkV ELSE StoredP(x)

Abs(i) == IF i < 0 THEN -i ELSE i
\* two numbers within the tolerance
NumClose(x, y) ==
  IF tol < 0                         \* tolerance None: relative 1e-5 (math.isclose)
  THEN Abs(x - y) <= (IF Abs(x) >= Abs(y) THEN Abs(x) ELSE Abs(y)) \div 100000
  ELSE Abs(x - y) <= tol             \* equal numbers are close under every
                                     \* tolerance, 0 included
\* the statement: stored result s of a cell "altered by more than the tolerance" to a
Altered(s, a) == IF IsNum(s) /\ IsNum(a) THEN ~NumClose(s[2], a[2]) ELSE s # a
\* close_enough(): a tolerance is for two numbers; a logical is not the number
\* 1 or 0, whatever python's True == 1 says
Close(a, b) == IF IsNum(a) /\ IsNum(b) THEN NumClose(a[2], b[2]) ELSE a = b

(* _gen_graph(addr): build the missing ancestors, stored results for new    *)
(* formula cells, new ranges / unbounded references evaluated eagerly      *)
BuildOnly(n) ==
  LET B  == AncOf(n) \ built
      c0 == [x \in Nodes |->
               IF x \notin B THEN cache[x]
               ELSE IF x \in Inputs THEN inp[x]
               ELSE IF x \in Formulas THEN ReadP(x)
               ELSE NoneV]
  IN  [built |-> built \cup B, edges |-> edges \cup NewEdges(B),
       cache |-> Fill(c0, B \cap (Ranges \cup Aliases))]

Push(stack, n, ver) ==      \* needed addresses not yet verified, in order
  LET RECURSIVE P(_, _)
      P(s, rest) == IF rest = <<>> THEN s
                    ELSE P(IF Head(rest) \in ver THEN s ELSE Append(s, Head(rest)), Tail(rest))
  IN  P(stack, NeededSeq(n))

VInit ==
  /\ Init
  /\ p \in Perturbs \cup {NoP}
  /\ outs \in OutputLists
  /\ \E c \in Configs : broken = c[1] /\ iterate = c[2] /\ tol = c[3]
  /\ todo = outs
  /\ verified = {}
  /\ mism = <<>>          \* sequence of <<cell, original, calced>> (dict order)
  /\ excs = {}

VStep ==
  /\ todo # <<>>
  /\ LET n  == todo[Len(todo)]
         rest == SubSeq(todo, 1, Len(todo) - 1)
         B  == AncOf(n) \ built
         c0 == [x \in Nodes |->
                  IF x \notin B THEN cache[x]
                  ELSE IF x \in Inputs THEN inp[x]
                  ELSE IF x \in Formulas THEN ReadP(x)
                  ELSE NoneV]
         \* what _gen_graph evaluates (new ranges) and what the check evaluates
         needBuild == UNION {Needed(r, c0) : r \in B \cap (Ranges \cup Aliases)}
         st == BuildOnly(n)
         \* (iteratively: the whole cone of the cell, computed before or not)
         needEval == IF n \notin Formulas THEN {}
                     ELSE IF iterate THEN AncOf(n) \ Inputs
                     ELSE Needed(n, [st.cache EXCEPT ![n] = NoneV])
     IN  /\ built' = st.built
         /\ edges' = st.edges
         /\ verified' = verified \cup {n}
         /\ todo' = Push(rest, n, verified \cup {n})
         /\ IF needBuild \cap broken # {}
            THEN \* _gen_graph raised while evaluating a new range
                 /\ excs' = excs \cup {n}
                 /\ cache' = c0
                 /\ mism' = mism
            ELSE IF needEval \cap broken # {}
            THEN \* the cell, or an uncomputed precedent, raised; it stays cleared
                 /\ excs' = excs \cup {n}
                 /\ cache' = [st.cache EXCEPT ![n] = NoneV]
                 /\ mism' = mism
            ELSE /\ excs' = excs
                 /\ IF n \in Formulas
                    THEN LET \* the value the cell holds; the result in the file where
                             \* that is not the same thing: recalculated before
                             \* (iteratively), or an empty text read as "no value"
                             orig == IF iterate \/ StoredP(n) = VS("")
                                     THEN StoredP(n) ELSE st.cache[n]
                             c1 == IF iterate
                                   THEN FillLevels(st.cache, AncOf(n) \ Inputs, 1)
                                   ELSE Fill([st.cache EXCEPT ![n] = NoneV], {n})
                         IN  /\ cache' = c1
                             /\ mism' = IF orig = NoneV \/ Close(c1[n], orig) THEN mism
                                        ELSE Append(SelectSeq(mism, LAMBDA m : m[1] # n),
                                                    <<n, orig, c1[n]>>)
                    ELSE /\ cache' = st.cache
                         /\ mism' = mism
  /\ act' = [op |-> "vstep"]
  /\ UNCHANGED <<inp, changed, ret, p, outs, tol, broken, iterate>>

VSpec == VInit /\ [][VStep]_vvars

(* ---- the report relation ---- *)
RECURSIVE ReachRec(_, _)
ReachRec(front, seen) ==
  LET nxt == UNION {PrecMap[x] : x \in front} \ seen
  IN  IF nxt = {} THEN seen ELSE ReachRec(nxt, seen \cup nxt)
Reach == ReachRec({outs[i] : i \in 1..Len(outs)}, {outs[i] : i \in 1..Len(outs)})

DescOf(x) == {y \in Nodes : x \in AncOf(y)}          \* x itself and its dependants
Reported == {mism[i][1] : i \in 1..Len(mism)}
Finished == todo = <<>>

ConsistentEmpty == Finished /\ p = NoP /\ broken = {} => mism = <<>> /\ excs = {}

PerturbedNamed ==
  Finished /\ p # NoP /\ p[1] \in Reach /\ p[1] \notin excs
           /\ Altered(Stored(p[1]), p[2]) =>
     \E i \in 1..Len(mism) : mism[i] = <<p[1], p[2], Stored(p[1])>>

OnlyDependants ==
  Finished => IF p = NoP THEN Reported = {} ELSE Reported \subseteq DescOf(p[1])

UnevaluableReported ==
  Finished => \A b \in broken \cap Reach \cap Formulas : b \in excs

Export == Finished =>
  PrintT(ToJson([p |-> p, outs |-> outs, tol |-> tol, broken |-> broken,
                 iterate |-> iterate, mism |-> mism, excs |-> excs, reach |-> Reach]))
=============================================================================
